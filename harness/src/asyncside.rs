//! Async twin of the sync machinery: `PendingFs` (injects `Pending` into every AsyncFileSystem method and
//! directory stream), configuration builder, executor and snapshot observer for `AsyncVfsPath`.

use crate::cfg::{new_scratch_dir, Cfg};
use crate::model::Node;
use crate::ops::{seek_from, ErrInfo, Kind, Op, Out, RStep, Res, ScriptRes, WStep};
use crate::panicmon::guard;
use crate::snapshot::{MetaObs, PathObs, Snap};
use async_std::io::prelude::SeekExt;
use async_std::io::{ReadExt, WriteExt};
use async_trait::async_trait;
use futures::stream::{Stream, StreamExt};
use std::collections::{BTreeMap, BTreeSet};
use std::future::Future;
use std::path::PathBuf;
use std::pin::Pin;
use std::sync::atomic::{AtomicU64, AtomicUsize, Ordering};
use std::sync::Arc;
use std::task::{Context, Poll};
use std::time::SystemTime;
use vfs::async_vfs::{AsyncAltrootFS, AsyncFileSystem, AsyncMemoryFS, AsyncOverlayFS, AsyncPhysicalFS, AsyncVfsPath, SeekAndRead};
use vfs::{VfsFileType, VfsMetadata, VfsResult};

/// Poll schedule shared by every wrapper of one async instance.
#[derive(Debug)]
pub struct PendCtl {
    /// number of `Pending`s to inject at the i-th injection point (cyclic)
    pub schedule: std::sync::Mutex<Vec<u8>>,
    pub pos: AtomicUsize,
    pub points: AtomicU64,
    pub pendings: AtomicU64,
}

impl PendCtl {
    pub fn new(schedule: Vec<u8>) -> Arc<PendCtl> {
        Arc::new(PendCtl { schedule: std::sync::Mutex::new(if schedule.is_empty() { vec![0] } else { schedule }), pos: AtomicUsize::new(0), points: AtomicU64::new(0), pendings: AtomicU64::new(0) })
    }
    pub fn set_schedule(&self, schedule: Vec<u8>) {
        *self.schedule.lock().unwrap() = if schedule.is_empty() { vec![0] } else { schedule };
        self.pos.store(0, Ordering::SeqCst);
        self.points.store(0, Ordering::SeqCst);
        self.pendings.store(0, Ordering::SeqCst);
    }
    fn next(&self) -> u8 {
        let i = self.pos.fetch_add(1, Ordering::SeqCst);
        self.points.fetch_add(1, Ordering::SeqCst);
        let n = {
            let s = self.schedule.lock().unwrap();
            s[i % s.len()]
        };
        self.pendings.fetch_add(n as u64, Ordering::SeqCst);
        n
    }
    pub fn reset(&self) {
        self.pos.store(0, Ordering::SeqCst);
    }
}

pub struct YieldN(u8);
impl Future for YieldN {
    type Output = ();
    fn poll(mut self: Pin<&mut Self>, cx: &mut Context<'_>) -> Poll<()> {
        if self.0 == 0 {
            Poll::Ready(())
        } else {
            self.0 -= 1;
            cx.waker().wake_by_ref();
            Poll::Pending
        }
    }
}

pub struct PendingFs {
    inner: Box<dyn AsyncFileSystem>,
    ctl: Arc<PendCtl>,
}

impl std::fmt::Debug for PendingFs {
    fn fmt(&self, f: &mut std::fmt::Formatter<'_>) -> std::fmt::Result {
        write!(f, "PendingFs({:?})", self.inner)
    }
}

struct PendingStream {
    inner: Box<dyn Unpin + Stream<Item = String> + Send>,
    ctl: Arc<PendCtl>,
    owed: Option<u8>,
    done: bool,
}

impl Stream for PendingStream {
    type Item = String;
    fn poll_next(self: Pin<&mut Self>, cx: &mut Context<'_>) -> Poll<Option<String>> {
        let this = self.get_mut();
        if this.done {
            // the library re-polls an exhausted stream while a read_dir future is pending: stay exhausted
            return Poll::Ready(None);
        }
        let owed = match this.owed {
            Some(n) => n,
            None => this.ctl.next(),
        };
        if owed > 0 {
            this.owed = Some(owed - 1);
            cx.waker().wake_by_ref();
            return Poll::Pending;
        }
        match this.inner.poll_next_unpin(cx) {
            Poll::Pending => {
                this.owed = Some(0);
                Poll::Pending
            }
            Poll::Ready(x) => {
                this.owed = None;
                if x.is_none() {
                    this.done = true;
                }
                Poll::Ready(x)
            }
        }
    }
}

#[async_trait]
impl AsyncFileSystem for PendingFs {
    async fn read_dir(&self, path: &str) -> VfsResult<Box<dyn Unpin + Stream<Item = String> + Send>> {
        YieldN(self.ctl.next()).await;
        let s = self.inner.read_dir(path).await?;
        Ok(Box::new(PendingStream { inner: s, ctl: self.ctl.clone(), owed: None, done: false }))
    }
    async fn create_dir(&self, path: &str) -> VfsResult<()> {
        YieldN(self.ctl.next()).await;
        self.inner.create_dir(path).await
    }
    async fn open_file(&self, path: &str) -> VfsResult<Box<dyn SeekAndRead + Send + Unpin>> {
        YieldN(self.ctl.next()).await;
        self.inner.open_file(path).await
    }
    async fn create_file(&self, path: &str) -> VfsResult<Box<dyn async_std::io::Write + Send + Unpin>> {
        YieldN(self.ctl.next()).await;
        self.inner.create_file(path).await
    }
    async fn append_file(&self, path: &str) -> VfsResult<Box<dyn async_std::io::Write + Send + Unpin>> {
        YieldN(self.ctl.next()).await;
        self.inner.append_file(path).await
    }
    async fn metadata(&self, path: &str) -> VfsResult<VfsMetadata> {
        YieldN(self.ctl.next()).await;
        self.inner.metadata(path).await
    }
    async fn set_creation_time(&self, path: &str, time: SystemTime) -> VfsResult<()> {
        YieldN(self.ctl.next()).await;
        self.inner.set_creation_time(path, time).await
    }
    async fn set_modification_time(&self, path: &str, time: SystemTime) -> VfsResult<()> {
        YieldN(self.ctl.next()).await;
        self.inner.set_modification_time(path, time).await
    }
    async fn set_access_time(&self, path: &str, time: SystemTime) -> VfsResult<()> {
        YieldN(self.ctl.next()).await;
        self.inner.set_access_time(path, time).await
    }
    async fn exists(&self, path: &str) -> VfsResult<bool> {
        YieldN(self.ctl.next()).await;
        self.inner.exists(path).await
    }
    async fn remove_file(&self, path: &str) -> VfsResult<()> {
        YieldN(self.ctl.next()).await;
        self.inner.remove_file(path).await
    }
    async fn remove_dir(&self, path: &str) -> VfsResult<()> {
        YieldN(self.ctl.next()).await;
        self.inner.remove_dir(path).await
    }
    async fn copy_file(&self, src: &str, dest: &str) -> VfsResult<()> {
        YieldN(self.ctl.next()).await;
        self.inner.copy_file(src, dest).await
    }
    async fn move_file(&self, src: &str, dest: &str) -> VfsResult<()> {
        YieldN(self.ctl.next()).await;
        self.inner.move_file(src, dest).await
    }
    async fn move_dir(&self, src: &str, dest: &str) -> VfsResult<()> {
        YieldN(self.ctl.next()).await;
        self.inner.move_dir(src, dest).await
    }
}

pub fn aat(root: &AsyncVfsPath, p: &str) -> AsyncVfsPath {
    if p.is_empty() {
        root.clone()
    } else {
        root.join(&p[1..]).expect("canonical path must join")
    }
}

pub struct ABuilt {
    pub root: AsyncVfsPath,
    pub ctl: Arc<PendCtl>,
    /// for the outermost overlay: its layer views (in order)
    pub layer_views: Vec<AsyncVfsPath>,
    scratch: Vec<PathBuf>,
}

impl Drop for ABuilt {
    fn drop(&mut self) {
        for d in &self.scratch {
            let _ = std::fs::remove_dir_all(d);
        }
    }
}

fn wrap(fs: impl AsyncFileSystem, ctl: &Arc<PendCtl>) -> AsyncVfsPath {
    AsyncVfsPath::new(PendingFs { inner: Box::new(fs), ctl: ctl.clone() })
}

async fn abuild_node(cfg: &Cfg, ctl: &Arc<PendCtl>, scratch: &mut Vec<PathBuf>, top_views: &mut Option<Vec<AsyncVfsPath>>, through_alt_only: bool) -> AsyncVfsPath {
    match cfg {
        Cfg::Mem => wrap(AsyncMemoryFS::new(), ctl),
        Cfg::Phys => {
            let d = new_scratch_dir();
            let root = d.join("root");
            std::fs::create_dir_all(&root).unwrap();
            scratch.push(d);
            wrap(AsyncPhysicalFS::new(root), ctl)
        }
        Cfg::Alt(inner, base) => {
            let r = Box::pin(abuild_node(inner, ctl, scratch, top_views, through_alt_only)).await;
            let under = aat(&r, base);
            under.create_dir_all().await.expect("set-up: create altroot base");
            wrap(AsyncAltrootFS::new(under), ctl)
        }
        Cfg::Ovl(layers) => {
            let mut paths = vec![];
            for (lc, base) in layers {
                let mut none = None;
                let r = Box::pin(abuild_node(lc, ctl, scratch, &mut none, false)).await;
                let lp = aat(&r, base);
                lp.create_dir_all().await.expect("set-up: create layer base");
                paths.push(lp);
            }
            if through_alt_only && top_views.is_none() {
                *top_views = Some(paths.clone());
            }
            wrap(AsyncOverlayFS::new(&paths), ctl)
        }
        Cfg::OvlShared(inner, n) => {
            let mut none = None;
            let r = Box::pin(abuild_node(inner, ctl, scratch, &mut none, false)).await;
            let mut paths = vec![];
            for k in 0..*n {
                let lp = aat(&r, &format!("/__lay{}", k));
                lp.create_dir_all().await.expect("set-up: create layer base");
                paths.push(lp);
            }
            if through_alt_only && top_views.is_none() {
                *top_views = Some(paths.clone());
            }
            wrap(AsyncOverlayFS::new(&paths), ctl)
        }
    }
}

pub async fn abuild(cfg: &Cfg, schedule: Vec<u8>) -> ABuilt {
    let ctl = PendCtl::new(vec![0]);
    let mut scratch = vec![];
    let mut views = None;
    let root = abuild_node(cfg, &ctl, &mut scratch, &mut views, true).await;
    // set-up ran without injected pendings; arm the schedule now
    ctl.set_schedule(schedule);
    ABuilt { root, ctl, layer_views: views.unwrap_or_default(), scratch }
}

pub async fn awrite_tree(view: &AsyncVfsPath, prefix: &str, tree: &BTreeMap<String, Node>) -> Result<(), String> {
    if !prefix.is_empty() {
        aat(view, prefix).create_dir_all().await.map_err(|e| format!("set-up create_dir_all({}): {}", prefix, e))?;
    }
    for (p, n) in tree {
        let full = format!("{}{}", prefix, p);
        let vp = aat(view, &full);
        match n {
            Node::Dir => vp.create_dir().await.map_err(|e| format!("set-up create_dir({}): {}", full, e))?,
            Node::File(b) => {
                let mut w = vp.create_file().await.map_err(|e| format!("set-up create_file({}): {}", full, e))?;
                w.write_all(b).await.map_err(|e| format!("set-up write({}): {}", full, e))?;
                w.flush().await.map_err(|e| e.to_string())?;
                drop(w);
            }
        }
    }
    Ok(())
}

fn verr<T>(r: VfsResult<T>) -> Result<T, ErrInfo> {
    r.map_err(|e| ErrInfo::from_vfs(&e))
}
fn ioerr<T>(r: std::io::Result<T>) -> Result<T, ErrInfo> {
    r.map_err(|e| ErrInfo::from_io(&e))
}

async fn read_upto(r: &mut (dyn SeekAndRead + Send + Unpin), n: usize) -> std::io::Result<Vec<u8>> {
    let mut buf = vec![0u8; n];
    let mut got = 0;
    if n == 0 {
        let _ = r.read(&mut buf[..0]).await?;
        return Ok(buf);
    }
    while got < n {
        let k = r.read(&mut buf[got..]).await?;
        if k == 0 {
            break;
        }
        got += k;
    }
    buf.truncate(got);
    Ok(buf)
}

pub async fn arun_rscript(r: &mut (dyn SeekAndRead + Send + Unpin), script: &[RStep]) -> Vec<ScriptRes> {
    let mut out = vec![];
    for s in script {
        out.push(match s {
            RStep::Read(n) => match read_upto(r, *n).await {
                Ok(d) => ScriptRes::Data(d),
                Err(e) => ScriptRes::Err(format!("{:?}", e.kind())),
            },
            RStep::Seek(wh, off) => match r.seek(seek_from(*wh, *off)).await {
                Ok(n) => ScriptRes::N(n),
                Err(e) => ScriptRes::Err(format!("{:?}", e.kind())),
            },
            RStep::ReadToEnd => {
                let mut v = vec![];
                match r.read_to_end(&mut v).await {
                    Ok(_) => ScriptRes::Data(v),
                    Err(e) => ScriptRes::Err(format!("{:?}", e.kind())),
                }
            }
        });
    }
    out
}

async fn aexec_inner(root: &AsyncVfsPath, op: &Op) -> Res {
    match op {
        Op::CreateDir(p) => verr(aat(root, p).create_dir().await).map(|_| Out::Unit),
        Op::CreateFile(p, script) | Op::AppendFile(p, script) => {
            let path = aat(root, p);
            let mut w = verr(if matches!(op, Op::CreateFile(..)) { path.create_file().await } else { path.append_file().await })?;
            for s in script {
                match s {
                    WStep::Write(b) => ioerr(w.write_all(b).await)?,
                    WStep::Seek(..) => {}
                    WStep::Flush => ioerr(w.flush().await)?,
                }
            }
            ioerr(w.flush().await)?;
            drop(w);
            Ok(Out::Unit)
        }
        Op::RemoveFile(p) => verr(aat(root, p).remove_file().await).map(|_| Out::Unit),
        Op::RemoveDir(p) => verr(aat(root, p).remove_dir().await).map(|_| Out::Unit),
        Op::OpenRead(p, script) => {
            let mut r = verr(aat(root, p).open_file().await)?;
            if script.is_empty() {
                let mut v = vec![];
                ioerr(r.read_to_end(&mut v).await)?;
                Ok(Out::Bytes(v))
            } else {
                let mut probe = [0u8; 1];
                ioerr(r.read(&mut probe).await)?;
                ioerr(r.seek(std::io::SeekFrom::Start(0)).await)?;
                Ok(Out::Script(arun_rscript(&mut *r, script).await))
            }
        }
        Op::ReadDir(p) => {
            let mut s = verr(aat(root, p).read_dir().await)?;
            let mut names = vec![];
            while let Some(c) = s.next().await {
                names.push(c.filename());
            }
            names.sort();
            Ok(Out::Names(names))
        }
        Op::Metadata(p) => {
            let m = verr(aat(root, p).metadata().await)?;
            Ok(Out::Meta { dir: m.file_type == VfsFileType::Directory, len: m.len })
        }
        Op::Exists(p) => verr(aat(root, p).exists().await).map(Out::Bool),
        Op::IsFile(p) => verr(aat(root, p).is_file().await).map(Out::Bool),
        Op::IsDir(p) => verr(aat(root, p).is_dir().await).map(Out::Bool),
        Op::CreateDirAll(p) => verr(aat(root, p).create_dir_all().await).map(|_| Out::Unit),
        Op::RemoveDirAll(p) => verr(aat(root, p).remove_dir_all().await).map(|_| Out::Unit),
        Op::CopyFile(s, d) => verr(aat(root, s).copy_file(&aat(root, d)).await).map(|_| Out::Unit),
        Op::MoveFile(s, d) => verr(aat(root, s).move_file(&aat(root, d)).await).map(|_| Out::Unit),
        Op::CopyDir(s, d) => verr(aat(root, s).copy_dir(&aat(root, d)).await).map(Out::Count),
        Op::MoveDir(s, d) => verr(aat(root, s).move_dir(&aat(root, d)).await).map(|_| Out::Unit),
        Op::ReadToString(p) => verr(aat(root, p).read_to_string().await).map(Out::Str),
        Op::WalkDir(p) => Ok(Out::Walk(verr(awalk(root, p).await)?)),
        Op::HoldOpen(..) | Op::Publish(_) => Err(ErrInfo { kind: Kind::Other, path: "<harness>".into(), display: "pseudo-step".into(), panic: None }),
        Op::SetTime(p, f, s, n) => {
            let t = crate::ops::systime(*s, *n);
            let path = aat(root, p);
            verr(match f {
                crate::ops::TimeField::Created => path.set_creation_time(t).await,
                crate::ops::TimeField::Modified => path.set_modification_time(t).await,
                crate::ops::TimeField::Accessed => path.set_access_time(t).await,
            })
            .map(|_| Out::Unit)
        }
    }
}

pub async fn awalk(root: &AsyncVfsPath, p: &str) -> VfsResult<Vec<Result<String, ErrInfo>>> {
    let mut it = aat(root, p).walk_dir().await?;
    let mut v = vec![];
    while let Some(item) = it.next().await {
        v.push(match item {
            Ok(x) => Ok(x.as_str().to_string()),
            Err(e) => Err(ErrInfo::from_vfs(&e)),
        });
        if v.len() > 5000 {
            v.push(Err(ErrInfo { kind: Kind::Other, path: "<harness>".into(), display: "walk_dir does not terminate".into(), panic: None }));
            break;
        }
    }
    Ok(v)
}

/// One current-thread tokio runtime per worker thread.
pub fn block_on<T>(f: impl Future<Output = T>) -> T {
    thread_local! {
        static RT: tokio::runtime::Runtime = tokio::runtime::Builder::new_current_thread().build().expect("tokio runtime");
    }
    RT.with(|rt| rt.block_on(f))
}

pub fn aexec(root: &AsyncVfsPath, op: &Op) -> Res {
    match guard(|| block_on(aexec_inner(root, op))) {
        Ok(r) => r,
        Err(p) => Err(ErrInfo::from_panic(p)),
    }
}

async fn aobserve(root: &AsyncVfsPath, p: &str, errors: &mut Vec<(&'static str, String, ErrInfo)>) -> PathObs {
    let path = aat(root, p);
    let exists = verr(path.exists().await);
    let meta = verr(path.metadata().await).map(|m| MetaObs { dir: m.file_type == VfsFileType::Directory, len: m.len, created: m.created, modified: m.modified, accessed: m.accessed });
    let is_file = verr(path.is_file().await);
    let is_dir = verr(path.is_dir().await);
    let list = match path.read_dir().await {
        Ok(mut s) => {
            let mut v = vec![];
            while let Some(c) = s.next().await {
                v.push(c.as_str().to_string());
            }
            Ok(v)
        }
        Err(e) => Err(ErrInfo::from_vfs(&e)),
    };
    let read = match path.open_file().await {
        Ok(mut r) => {
            let mut v = vec![];
            match r.read_to_end(&mut v).await {
                Ok(_) => Ok(v),
                Err(e) => Err(ErrInfo::from_io(&e)),
            }
        }
        Err(e) => Err(ErrInfo::from_vfs(&e)),
    };
    for (m, r) in [("exists", exists.as_ref().err()), ("metadata", meta.as_ref().err()), ("is_file", is_file.as_ref().err()), ("is_dir", is_dir.as_ref().err()), ("read_dir", list.as_ref().err()), ("open_file", read.as_ref().err())] {
        if let Some(e) = r {
            errors.push((m, p.to_string(), e.clone()));
        }
    }
    PathObs { exists, meta, is_file, is_dir, list, read }
}

pub fn asnapshot(root: &AsyncVfsPath, probe: &[String]) -> Snap {
    let r = guard(|| {
        block_on(async {
            let mut obs = BTreeMap::new();
            let mut errors = vec![];
            let mut todo: Vec<String> = vec![String::new()];
            todo.extend(probe.iter().cloned());
            let mut discovered = BTreeSet::new();
            let probe_set: BTreeSet<&String> = probe.iter().collect();
            let mut calls = 0u64;
            while let Some(p) = todo.pop() {
                if obs.contains_key(&p) {
                    continue;
                }
                let o = aobserve(root, &p, &mut errors).await;
                calls += 6;
                if let Ok(ch) = &o.list {
                    for c in ch {
                        if !obs.contains_key(c) && !probe_set.contains(c) && c.starts_with('/') && !c.ends_with('/') && !c.contains("//") && discovered.len() < 300 && discovered.insert(c.clone()) {
                            todo.push(c.clone());
                        }
                    }
                }
                obs.insert(p, o);
            }
            let walk = awalk(root, "").await.map_err(|e| ErrInfo::from_vfs(&e));
            Snap { obs, walk, discovered, errors, calls }
        })
    });
    match r {
        Ok(s) => s,
        Err(p) => {
            let e = ErrInfo::from_panic(p);
            Snap { obs: BTreeMap::new(), walk: Err(e.clone()), discovered: BTreeSet::new(), errors: vec![("snapshot", String::new(), e)], calls: 0 }
        }
    }
}

#[allow(dead_code)]
pub fn counter_unused(_: &AtomicU64) {}
