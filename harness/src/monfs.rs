//! `MonFs`: a `FileSystem` wrapper (public trait, no source hook) that records every call made into the
//! wrapped filesystem (RecFs of DESIGN §2.4) and can make the k-th call fail (FaultFs of §2.5).

use crate::ops::Kind;
use std::io::{Read, Seek, SeekFrom, Write};
use std::sync::atomic::{AtomicBool, AtomicU64, AtomicUsize, Ordering};
use std::sync::{Arc, Mutex};
use std::time::SystemTime;
use vfs::error::VfsErrorKind;
use vfs::{FileSystem, SeekAndRead, SeekAndWrite, VfsError, VfsMetadata, VfsResult};

#[derive(Clone, Debug, PartialEq, Eq)]
pub struct Event {
    pub seq: u64,
    pub node: usize,
    pub method: &'static str,
    pub path: String,
    pub path2: Option<String>,
    pub ok: bool,
    pub kind: Option<Kind>,
    pub injected: bool,
}

pub const MUTATING: &[&str] = &[
    "create_dir", "create_file", "append_file", "remove_file", "remove_dir", "set_creation_time",
    "set_modification_time", "set_access_time", "copy_file", "move_file", "move_dir",
];

impl Event {
    pub fn is_mutating(&self) -> bool {
        MUTATING.contains(&self.method)
    }
    pub fn render(&self) -> String {
        format!(
            "n{}.{}({:?}{}) -> {}{}",
            self.node,
            self.method,
            self.path,
            self.path2.as_ref().map(|p| format!(", {:?}", p)).unwrap_or_default(),
            if self.ok { "Ok".to_string() } else { format!("Err({})", self.kind.as_ref().map(|k| k.name()).unwrap_or_default()) },
            if self.injected { " [INJECTED]" } else { "" }
        )
    }
}

#[derive(Debug, Default)]
pub struct MonCtl {
    pub events: Mutex<Vec<Event>>,
    pub record: AtomicBool,
    /// number of trait calls seen while counting is on
    pub calls: AtomicU64,
    pub counting: AtomicBool,
    /// fail the call whose (1-based) index equals this; 0 = never
    pub fail_at: AtomicU64,
    /// only calls into this node are counted/failed (usize::MAX = all nodes)
    pub fail_node: AtomicUsize,
    pub injected: AtomicU64,
    /// handle-level (read/write/flush/seek) fault dimension
    pub hcalls: AtomicU64,
    pub hfail_at: AtomicU64,
    pub hinjected: AtomicU64,
}

impl MonCtl {
    pub fn new() -> Arc<MonCtl> {
        let c = MonCtl::default();
        c.fail_node.store(usize::MAX, Ordering::SeqCst);
        Arc::new(c)
    }
    pub fn start_recording(&self) {
        self.events.lock().unwrap().clear();
        self.record.store(true, Ordering::SeqCst);
    }
    pub fn stop_recording(&self) -> Vec<Event> {
        self.record.store(false, Ordering::SeqCst);
        std::mem::take(&mut *self.events.lock().unwrap())
    }
    pub fn arm(&self, k: u64, node: usize) {
        self.calls.store(0, Ordering::SeqCst);
        self.injected.store(0, Ordering::SeqCst);
        self.fail_at.store(k, Ordering::SeqCst);
        self.fail_node.store(node, Ordering::SeqCst);
        self.counting.store(true, Ordering::SeqCst);
    }
    pub fn arm_handle(&self, k: u64) {
        self.hcalls.store(0, Ordering::SeqCst);
        self.hinjected.store(0, Ordering::SeqCst);
        self.hfail_at.store(k, Ordering::SeqCst);
        self.counting.store(true, Ordering::SeqCst);
    }
    /// returns (trait calls counted, faults injected, handle calls counted, handle faults injected)
    pub fn disarm(&self) -> (u64, u64, u64, u64) {
        self.counting.store(false, Ordering::SeqCst);
        self.fail_at.store(0, Ordering::SeqCst);
        self.hfail_at.store(0, Ordering::SeqCst);
        self.fail_node.store(usize::MAX, Ordering::SeqCst);
        (
            self.calls.swap(0, Ordering::SeqCst),
            self.injected.swap(0, Ordering::SeqCst),
            self.hcalls.swap(0, Ordering::SeqCst),
            self.hinjected.swap(0, Ordering::SeqCst),
        )
    }
    fn should_fail(&self, node: usize) -> bool {
        if !self.counting.load(Ordering::SeqCst) {
            return false;
        }
        let fnode = self.fail_node.load(Ordering::SeqCst);
        if fnode != usize::MAX && fnode != node {
            return false;
        }
        let n = self.calls.fetch_add(1, Ordering::SeqCst) + 1;
        if n == self.fail_at.load(Ordering::SeqCst) {
            self.injected.fetch_add(1, Ordering::SeqCst);
            true
        } else {
            false
        }
    }
    fn handle_should_fail(&self) -> bool {
        if !self.counting.load(Ordering::SeqCst) {
            return false;
        }
        let n = self.hcalls.fetch_add(1, Ordering::SeqCst) + 1;
        if n == self.hfail_at.load(Ordering::SeqCst) {
            self.hinjected.fetch_add(1, Ordering::SeqCst);
            true
        } else {
            false
        }
    }
}

pub struct MonFs {
    pub inner: Box<dyn FileSystem>,
    pub node: usize,
    pub ctl: Arc<MonCtl>,
    pub wrap_handles: bool,
}

impl std::fmt::Debug for MonFs {
    fn fmt(&self, f: &mut std::fmt::Formatter<'_>) -> std::fmt::Result {
        write!(f, "MonFs#{}({:?})", self.node, self.inner)
    }
}

fn injected_err() -> VfsError {
    VfsError::from(VfsErrorKind::IoError(std::io::Error::new(std::io::ErrorKind::Other, "injected fault")))
}

fn injected_io() -> std::io::Error {
    std::io::Error::new(std::io::ErrorKind::Other, "injected handle fault")
}

fn kind_of(e: &VfsError) -> Kind {
    crate::ops::ErrInfo::from_vfs(e).kind
}

impl MonFs {
    pub fn new(inner: Box<dyn FileSystem>, node: usize, ctl: Arc<MonCtl>) -> MonFs {
        MonFs { inner, node, ctl, wrap_handles: true }
    }
    fn call<T>(&self, method: &'static str, path: &str, path2: Option<&str>, f: impl FnOnce() -> VfsResult<T>) -> VfsResult<T> {
        let inject = self.ctl.should_fail(self.node);
        let r = if inject { Err(injected_err()) } else { f() };
        if self.ctl.record.load(Ordering::SeqCst) {
            let mut ev = self.ctl.events.lock().unwrap();
            let seq = ev.len() as u64;
            ev.push(Event {
                seq,
                node: self.node,
                method,
                path: path.to_string(),
                path2: path2.map(|s| s.to_string()),
                ok: r.is_ok(),
                kind: r.as_ref().err().map(kind_of),
                injected: inject,
            });
        }
        r
    }
}

struct FaultyRead {
    inner: Box<dyn SeekAndRead + Send>,
    ctl: Arc<MonCtl>,
}
impl Read for FaultyRead {
    fn read(&mut self, buf: &mut [u8]) -> std::io::Result<usize> {
        if self.ctl.handle_should_fail() {
            return Err(injected_io());
        }
        self.inner.read(buf)
    }
}
impl Seek for FaultyRead {
    fn seek(&mut self, pos: SeekFrom) -> std::io::Result<u64> {
        self.inner.seek(pos)
    }
}
struct FaultyWrite {
    inner: Box<dyn SeekAndWrite + Send>,
    ctl: Arc<MonCtl>,
}
impl Write for FaultyWrite {
    fn write(&mut self, buf: &[u8]) -> std::io::Result<usize> {
        if self.ctl.handle_should_fail() {
            return Err(injected_io());
        }
        self.inner.write(buf)
    }
    fn flush(&mut self) -> std::io::Result<()> {
        if self.ctl.handle_should_fail() {
            return Err(injected_io());
        }
        self.inner.flush()
    }
}
impl Seek for FaultyWrite {
    fn seek(&mut self, pos: SeekFrom) -> std::io::Result<u64> {
        self.inner.seek(pos)
    }
}

impl FileSystem for MonFs {
    fn read_dir(&self, path: &str) -> VfsResult<Box<dyn Iterator<Item = String> + Send>> {
        self.call("read_dir", path, None, || self.inner.read_dir(path))
    }
    fn create_dir(&self, path: &str) -> VfsResult<()> {
        self.call("create_dir", path, None, || self.inner.create_dir(path))
    }
    fn open_file(&self, path: &str) -> VfsResult<Box<dyn SeekAndRead + Send>> {
        let r = self.call("open_file", path, None, || self.inner.open_file(path))?;
        if self.wrap_handles {
            Ok(Box::new(FaultyRead { inner: r, ctl: self.ctl.clone() }))
        } else {
            Ok(r)
        }
    }
    fn create_file(&self, path: &str) -> VfsResult<Box<dyn SeekAndWrite + Send>> {
        let w = self.call("create_file", path, None, || self.inner.create_file(path))?;
        if self.wrap_handles {
            Ok(Box::new(FaultyWrite { inner: w, ctl: self.ctl.clone() }))
        } else {
            Ok(w)
        }
    }
    fn append_file(&self, path: &str) -> VfsResult<Box<dyn SeekAndWrite + Send>> {
        let w = self.call("append_file", path, None, || self.inner.append_file(path))?;
        if self.wrap_handles {
            Ok(Box::new(FaultyWrite { inner: w, ctl: self.ctl.clone() }))
        } else {
            Ok(w)
        }
    }
    fn metadata(&self, path: &str) -> VfsResult<VfsMetadata> {
        self.call("metadata", path, None, || self.inner.metadata(path))
    }
    fn set_creation_time(&self, path: &str, time: SystemTime) -> VfsResult<()> {
        self.call("set_creation_time", path, None, || self.inner.set_creation_time(path, time))
    }
    fn set_modification_time(&self, path: &str, time: SystemTime) -> VfsResult<()> {
        self.call("set_modification_time", path, None, || self.inner.set_modification_time(path, time))
    }
    fn set_access_time(&self, path: &str, time: SystemTime) -> VfsResult<()> {
        self.call("set_access_time", path, None, || self.inner.set_access_time(path, time))
    }
    fn exists(&self, path: &str) -> VfsResult<bool> {
        self.call("exists", path, None, || self.inner.exists(path))
    }
    fn remove_file(&self, path: &str) -> VfsResult<()> {
        self.call("remove_file", path, None, || self.inner.remove_file(path))
    }
    fn remove_dir(&self, path: &str) -> VfsResult<()> {
        self.call("remove_dir", path, None, || self.inner.remove_dir(path))
    }
    fn copy_file(&self, src: &str, dest: &str) -> VfsResult<()> {
        self.call("copy_file", src, Some(dest), || self.inner.copy_file(src, dest))
    }
    fn move_file(&self, src: &str, dest: &str) -> VfsResult<()> {
        self.call("move_file", src, Some(dest), || self.inner.move_file(src, dest))
    }
    fn move_dir(&self, src: &str, dest: &str) -> VfsResult<()> {
        self.call("move_dir", src, Some(dest), || self.inner.move_dir(src, dest))
    }
}
