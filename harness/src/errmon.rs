//! Error monitor (C12): every `Err` any workload observes is checked for path labelling and kind classification.

use crate::cfg::Cfg;
use crate::json::J;
use crate::model::{is_under, Class, Model};
use crate::ops::{ErrInfo, Kind, Op};
use crate::report::{Acc, Violation};
use crate::snapshot::Snap;

pub const PLACEHOLDER: &str = "PATH NOT FILLED BY VFS LAYER";

pub type Mk<'a> = &'a dyn Fn(String, String, J) -> Violation;

fn related(label: &str, p: &str) -> bool {
    label == p || is_under(label, p) || is_under(p, label) || label.is_empty()
}

fn has_cfg_only_phys(c: &Cfg) -> bool {
    match c {
        Cfg::Mem => false,
        Cfg::Phys => true,
        Cfg::Alt(c, _) => has_cfg_only_phys(c),
        Cfg::Ovl(ls) => ls.iter().all(|(c, _)| has_cfg_only_phys(c)),
        Cfg::OvlShared(c, _) => has_cfg_only_phys(c),
    }
}

/// label rules shared by all call sites; returns true when the error was checked
fn check_label(cfg: &Cfg, method: &str, class: &str, paths: &[&str], e: &ErrInfo, acc: &mut Acc, mk: Mk) {
    if e.kind == Kind::Panic || e.is_handle_io() {
        return;
    }
    acc.count("errors_checked", 1);
    acc.cell(format!("err|{}|{}|{}", method, e.kind.name(), cfg.family()));
    if e.path == PLACEHOLDER || e.display.contains(PLACEHOLDER) {
        acc.violate(mk(
            format!("placeholder|{}|{}|{}|{}", method, class, e.kind.name(), cfg.family()),
            format!("{} on {:?} returned an error whose path is the unfilled placeholder: {}", method, paths, e.display),
            e.to_json(),
        ));
        return;
    }
    // a call on ONE entry (not a recursive or two-path operation) fails at that entry or at one of its ancestors: a
    // label strictly below the call path is not "the descendant at which the operation failed" — there is none
    let single_entry = matches!(method, "create_dir" | "create_file" | "append_file" | "remove_file" | "remove_dir" | "open_read" | "open_file" | "read_dir" | "metadata" | "exists" | "is_file" | "is_dir" | "set_time" | "read_to_string");
    if single_entry && paths.len() == 1 && is_under(&e.path, paths[0]) {
        acc.violate(mk(
            format!("descendant-label|{}|{}|{}|{}", method, class, e.kind.name(), cfg.family()),
            format!("{} on {:?} (one entry) returned an error labelled {:?}, a path below the call path: {}", method, paths, e.path, e.display),
            e.to_json(),
        ));
        return;
    }
    if !paths.iter().any(|p| related(&e.path, p)) {
        let inner = e.path.contains("/__alt") || e.path.contains("/__lay") || e.path.contains(".whiteout");
        acc.violate(mk(
            format!("foreign-path|{}|{}|{}|{}|{}", method, class, if inner { "inner" } else { "unrelated" }, e.kind.name(), cfg.family()),
            format!("{} on {:?} returned an error labelled {:?}, which is not the call path, its destination, nor an ancestor/descendant of either: {}", method, paths, e.path, e.display),
            e.to_json(),
        ));
    }
}

fn want_kind(cfg: &Cfg, method: &str, class: &str, paths: &[&str], want: &[Kind], e: &ErrInfo, acc: &mut Acc, mk: Mk) {
    if e.kind == Kind::Panic || e.is_handle_io() {
        return;
    }
    acc.count("kind_rules_checked", 1);
    // a backend that does not implement a mutating operation at all (read-only EmbeddedFS) answers NotSupported
    // before looking at the target: the not-supported rule of the property takes precedence over the other kind rules
    let mutator = !matches!(method, "open_read" | "open_file" | "read_dir" | "metadata" | "read_to_string" | "walk_dir" | "exists" | "is_file" | "is_dir");
    if mutator && e.kind == Kind::NotSupported {
        acc.count("kind_rule_answered_not_supported", 1);
        return;
    }
    if !want.contains(&e.kind) {
        acc.violate(mk(
            format!("kind|{}|{}|want:{}|got:{}|{}", method, class, want.iter().map(|k| k.name()).collect::<Vec<_>>().join("/"), e.kind.name(), cfg.family()),
            format!("{} on {:?} (target {}) is classified {} instead of {:?}: {}", method, paths, class, e.kind.name(), want.iter().map(|k| k.name()).collect::<Vec<_>>(), e.display),
            e.to_json(),
        ));
    }
}

pub fn check_op_error(cfg: &Cfg, op: &Op, pre: &Model, e: &ErrInfo, acc: &mut Acc, mk: Mk) {
    let c = pre.class(op.path());
    let mut paths = vec![op.path()];
    let dclass = op.dest().map(|d| pre.class(d));
    if let Some(d) = op.dest() {
        paths.push(d);
    }
    let clsig = match dclass {
        Some(d) => format!("{}->{}", c.name(), d.name()),
        None => c.name().to_string(),
    };
    check_label(cfg, op.name(), &clsig, &paths, e, acc, mk);
    match op {
        Op::AppendFile(..) | Op::RemoveFile(_) | Op::RemoveDir(_) | Op::OpenRead(..) | Op::ReadDir(_) | Op::Metadata(_)
        | Op::ReadToString(_) | Op::WalkDir(_) => {
            if c == Class::Absent {
                want_kind(cfg, op.name(), &clsig, &paths, &[Kind::NotFound], e, acc, mk);
            }
        }
        Op::SetTime(_, f, ..) => {
            if c == Class::Absent {
                want_kind(cfg, op.name(), &clsig, &paths, &[Kind::NotFound, Kind::NotSupported], e, acc, mk);
            } else if c.exists() && *f == crate::ops::TimeField::Created && has_cfg_only_phys(cfg) && !cfg.has_overlay() {
                want_kind(cfg, op.name(), &clsig, &paths, &[Kind::NotSupported], e, acc, mk);
            }
        }
        Op::CreateDir(_) => match c {
            Class::File => want_kind(cfg, op.name(), &clsig, &paths, &[Kind::FileExists], e, acc, mk),
            Class::EmptyDir | Class::NonEmptyDir => want_kind(cfg, op.name(), &clsig, &paths, &[Kind::DirExists], e, acc, mk),
            _ => {}
        },
        Op::CopyFile(s, d) | Op::MoveFile(s, d) | Op::CopyDir(s, d) | Op::MoveDir(s, d) => {
            // destination equal to / inside the source is left unspecified (the operation creates its own "source")
            if c == Class::Absent && dclass == Some(Class::Absent) && s != d && !is_under(d, s) {
                want_kind(cfg, op.name(), &clsig, &paths, &[Kind::NotFound], e, acc, mk);
            }
        }
        _ => {}
    }
}

pub fn check_walk_item(cfg: &Cfg, walk_root: &str, e: &ErrInfo, acc: &mut Acc, mk: Mk) {
    check_label(cfg, "walk_dir_item", "-", &[walk_root], e, acc, mk);
}

pub fn check_snapshot(cfg: &Cfg, s: &Snap, tree: &Model, acc: &mut Acc, mk: Mk) {
    for (method, p, e) in &s.errors {
        let c = tree.class(p);
        check_label(cfg, method, c.name(), &[p.as_str()], e, acc, mk);
        if c == Class::Absent && matches!(*method, "metadata" | "read_dir" | "open_file") {
            want_kind(cfg, method, c.name(), &[p.as_str()], &[Kind::NotFound], e, acc, mk);
        }
    }
}
