//! Small deterministic PRNG (splitmix64) — every random choice of the harness goes through this.

#[derive(Clone, Debug)]
pub struct Rng(pub u64);

impl Rng {
    pub fn new(seed: u64) -> Self {
        Rng(seed ^ 0x9E37_79B9_7F4A_7C15)
    }
    /// Independent stream for (seed, tag, index)
    pub fn derive(seed: u64, tag: &str, index: u64) -> Self {
        let mut h: u64 = 0xcbf2_9ce4_8422_2325;
        for b in tag.bytes() {
            h ^= b as u64;
            h = h.wrapping_mul(0x0000_0100_0000_01B3);
        }
        let mut r = Rng(seed.wrapping_mul(0x2545_F491_4F6C_DD1D) ^ h ^ index.wrapping_mul(0xD6E8_FEB8_6659_FD93));
        r.next_u64();
        r.next_u64();
        r
    }
    pub fn next_u64(&mut self) -> u64 {
        self.0 = self.0.wrapping_add(0x9E37_79B9_7F4A_7C15);
        let mut z = self.0;
        z = (z ^ (z >> 30)).wrapping_mul(0xBF58_476D_1CE4_E5B9);
        z = (z ^ (z >> 27)).wrapping_mul(0x94D0_49BB_1331_11EB);
        z ^ (z >> 31)
    }
    pub fn below(&mut self, n: usize) -> usize {
        if n == 0 {
            return 0;
        }
        (self.next_u64() % n as u64) as usize
    }
    pub fn range(&mut self, lo: usize, hi_incl: usize) -> usize {
        lo + self.below(hi_incl - lo + 1)
    }
    /// true with probability num/den
    pub fn chance(&mut self, num: u64, den: u64) -> bool {
        self.next_u64() % den < num
    }
    pub fn pick<'a, T>(&mut self, xs: &'a [T]) -> &'a T {
        &xs[self.below(xs.len())]
    }
    pub fn weighted(&mut self, weights: &[u32]) -> usize {
        let total: u64 = weights.iter().map(|w| *w as u64).sum();
        let mut x = self.next_u64() % total.max(1);
        for (i, w) in weights.iter().enumerate() {
            if x < *w as u64 {
                return i;
            }
            x -= *w as u64;
        }
        weights.len() - 1
    }
    /// Content of `len` bytes. One time in four the content is *shaped* instead of uniformly random: all zeros,
    /// a zero tail / zero head (block aligned for big contents), one block repeated, or one byte repeated —
    /// content-dependent defects (sparse-copy shortcuts, run-length tricks, terminator scans) need such data.
    pub fn bytes(&mut self, len: usize, utf8_only: bool) -> Vec<u8> {
        let mut v = self.raw_bytes(len, utf8_only);
        if len >= 2 && self.chance(1, 4) {
            match self.below(5) {
                0 => v.iter_mut().for_each(|b| *b = 0),
                1 => {
                    let cut = if len >= 8192 { self.below(len / 4096) * 4096 } else { self.below(len) };
                    v[cut..].iter_mut().for_each(|b| *b = 0);
                }
                2 => {
                    let cut = if len >= 8192 { ((1 + self.below(len / 4096)) * 4096).min(len) } else { 1 + self.below(len - 1) };
                    v[..cut].iter_mut().for_each(|b| *b = 0);
                }
                3 => {
                    let blk = if len >= 8192 { 4096 } else { 1 + self.below((len / 2).max(1)) };
                    for i in blk..len {
                        v[i] = v[i % blk];
                    }
                }
                _ => {
                    let fill = if utf8_only { b'\n' } else { 0xFF };
                    v.iter_mut().for_each(|b| *b = fill);
                }
            }
        }
        v
    }
    /// Block-structured content: `n` blocks of `block` bytes, each independently all-zero or random (the last one
    /// zero half of the time) — exact multiples of the usual buffer sizes with zero runs at block boundaries.
    pub fn block_bytes(&mut self) -> Vec<u8> {
        let block = *self.pick(&[512usize, 4096, 8192, 8192, 65536]);
        let n = if block == 65536 { self.range(1, 2) } else { self.range(1, 5) };
        let mut v = Vec::with_capacity(n * block);
        for i in 0..n {
            let zero = if i + 1 == n { self.chance(1, 2) } else { self.chance(1, 3) };
            if zero {
                v.extend(std::iter::repeat(0u8).take(block));
            } else {
                v.extend(self.raw_bytes(block, false));
            }
        }
        v
    }
    fn raw_bytes(&mut self, len: usize, utf8_only: bool) -> Vec<u8> {

        let mut v = Vec::with_capacity(len);
        if utf8_only {
            // valid UTF-8 of exactly `len` bytes; one character in five has 2, 3 or 4 bytes, so that characters
            // straddle buffer boundaries (8 KiB, 64 KiB) in large texts
            const AL: &[u8] = b"abcdefghijklmnopqrstuvwxyz0123456789 \n";
            const MB: &[&str] = &["\u{e9}", "\u{fc}", "\u{20ac}", "\u{65e5}", "\u{1f980}"];
            while v.len() < len {
                if self.below(5) == 0 {
                    let c = MB[self.below(MB.len())].as_bytes();
                    if v.len() + c.len() <= len {
                        v.extend_from_slice(c);
                        continue;
                    }
                }
                v.push(AL[self.below(AL.len())]);
            }
        } else {
            let mut cur = 0u64;
            for i in 0..len {
                if i % 8 == 0 {
                    cur = self.next_u64();
                }
                v.push((cur >> ((i % 8) * 8)) as u8);
            }
        }
        v
    }
    pub fn shuffle<T>(&mut self, xs: &mut [T]) {
        for i in (1..xs.len()).rev() {
            let j = self.below(i + 1);
            xs.swap(i, j);
        }
    }
}
