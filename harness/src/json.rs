//! Minimal JSON value + serializer (no external crates available offline beyond the repo's own deps).

use std::collections::BTreeMap;
use std::fmt::Write;

#[derive(Clone, Debug, PartialEq)]
pub enum J {
    Null,
    Bool(bool),
    Int(i64),
    Float(f64),
    Str(String),
    Arr(Vec<J>),
    Obj(Vec<(String, J)>),
}

impl J {
    pub fn s(x: impl AsRef<str>) -> J {
        J::Str(x.as_ref().to_string())
    }
    pub fn i(x: impl TryInto<i64>) -> J {
        J::Int(x.try_into().unwrap_or(i64::MAX))
    }
    pub fn obj() -> J {
        J::Obj(vec![])
    }
    pub fn arr<I: IntoIterator<Item = J>>(it: I) -> J {
        J::Arr(it.into_iter().collect())
    }
    pub fn set(mut self, k: &str, v: J) -> J {
        if let J::Obj(ref mut o) = self {
            if let Some(e) = o.iter_mut().find(|(kk, _)| kk == k) {
                e.1 = v;
            } else {
                o.push((k.to_string(), v));
            }
        }
        self
    }
    pub fn put(&mut self, k: &str, v: J) {
        if let J::Obj(ref mut o) = self {
            if let Some(e) = o.iter_mut().find(|(kk, _)| kk == k) {
                e.1 = v;
            } else {
                o.push((k.to_string(), v));
            }
        }
    }
    pub fn from_counts<K: AsRef<str>>(m: &BTreeMap<K, u64>) -> J {
        J::Obj(m.iter().map(|(k, v)| (k.as_ref().to_string(), J::Int(*v as i64))).collect())
    }
    pub fn write(&self, out: &mut String) {
        match self {
            J::Null => out.push_str("null"),
            J::Bool(b) => out.push_str(if *b { "true" } else { "false" }),
            J::Int(i) => {
                let _ = write!(out, "{}", i);
            }
            J::Float(f) => {
                if f.is_finite() {
                    let _ = write!(out, "{:.3}", f);
                } else {
                    out.push_str("null");
                }
            }
            J::Str(s) => write_str(s, out),
            J::Arr(a) => {
                out.push('[');
                for (i, x) in a.iter().enumerate() {
                    if i > 0 {
                        out.push(',');
                    }
                    x.write(out);
                }
                out.push(']');
            }
            J::Obj(o) => {
                out.push('{');
                for (i, (k, v)) in o.iter().enumerate() {
                    if i > 0 {
                        out.push(',');
                    }
                    write_str(k, out);
                    out.push(':');
                    v.write(out);
                }
                out.push('}');
            }
        }
    }
    pub fn to_string(&self) -> String {
        let mut s = String::new();
        self.write(&mut s);
        s
    }
}

fn write_str(s: &str, out: &mut String) {
    out.push('"');
    for c in s.chars() {
        match c {
            '"' => out.push_str("\\\""),
            '\\' => out.push_str("\\\\"),
            '\n' => out.push_str("\\n"),
            '\r' => out.push_str("\\r"),
            '\t' => out.push_str("\\t"),
            c if (c as u32) < 0x20 => {
                let _ = write!(out, "\\u{:04x}", c as u32);
            }
            c => out.push(c),
        }
    }
    out.push('"');
}

/// Printable rendering of bytes for samples/replays (short)
pub fn bytes_repr(b: &[u8]) -> String {
    let mut s = format!("{}B:", b.len());
    for x in b.iter().take(12) {
        let _ = write!(s, "{:02x}", x);
    }
    if b.len() > 12 {
        s.push_str("..");
        // cheap checksum so that different contents render differently
        let mut h: u32 = 2166136261;
        for x in b {
            h = (h ^ *x as u32).wrapping_mul(16777619);
        }
        let _ = write!(s, "#{:08x}", h);
    }
    s
}
