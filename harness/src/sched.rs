//! Baton scheduler (DESIGN §2.7): program threads are real OS threads; at every yield point (the
//! `verif-hooks` callback in front of each lock acquisition, and every call boundary) a thread parks until the
//! controller hands it the baton. The controller picks the next thread from a pluggable source.

use crate::rng::Rng;
use std::sync::{Arc, Condvar, Mutex};
use std::sync::atomic::Ordering::SeqCst;
use std::time::{Duration, Instant};

/// iterations of the pre-blocking spin (a few microseconds)
const SPIN: u32 = 4000;

#[derive(Clone, Copy, Debug, PartialEq, Eq)]
enum St {
    NotStarted,
    Waiting(&'static str),
    Running,
    Finished,
}

struct State {
    st: Vec<St>,
    turn: Option<usize>,
    trace: Vec<(usize, &'static str)>,
    abort: bool,
}

pub struct Baton {
    /// lock-free mirrors used for a short spin before blocking (futex hand-offs cost ~50 us each in this VM)
    turn_a: std::sync::atomic::AtomicUsize,
    events: std::sync::atomic::AtomicU64,
    state: Mutex<State>,
    /// the controller waits here
    cv: Condvar,
    /// program thread i waits on tcv[i] (one wake-up per hand-off instead of a broadcast)
    tcv: Vec<Condvar>,
}

/// Where the controller takes its decisions from.
pub enum Source {
    Random(Rng),
    /// PCT-style: fixed random priorities, `d` priority change points at random decision indices
    Pct { rng: Rng, prio: Vec<u64>, change_at: Vec<usize> },
    /// replay / sweep: the i-th decision takes the `script[i]`-th waiting thread (in thread order); beyond the
    /// script the first waiting thread is taken. `widths` records how many alternatives each decision had.
    Script { script: Vec<usize>, widths: Vec<usize> },
}

#[derive(Debug, Clone, PartialEq, Eq)]
pub enum RunEnd {
    Completed,
    /// no thread can make progress: every unfinished thread is stuck inside the library (blocked on a lock)
    Deadlock(Vec<usize>),
}

pub struct RunResult {
    pub end: RunEnd,
    pub trace: Vec<(usize, &'static str)>,
    pub decisions: Vec<usize>,
    pub widths: Vec<usize>,
}

impl Baton {
    pub fn new(threads: usize) -> Arc<Baton> {
        Arc::new(Baton { turn_a: std::sync::atomic::AtomicUsize::new(usize::MAX), events: std::sync::atomic::AtomicU64::new(0), state: Mutex::new(State { st: vec![St::NotStarted; threads], turn: None, trace: vec![], abort: false }), cv: Condvar::new(), tcv: (0..threads).map(|_| Condvar::new()).collect() })
    }

    /// Called by program thread `i` at a yield point: parks until the controller grants the baton.
    pub fn yield_point(&self, i: usize, label: &'static str) {
        let mut g = self.state.lock().unwrap();
        if g.abort {
            return;
        }
        g.st[i] = St::Waiting(label);
        if g.turn == Some(i) {
            g.turn = None;
            self.turn_a.store(usize::MAX, SeqCst);
        }
        self.events.fetch_add(1, SeqCst);
        self.cv.notify_one();
        // short spin on the lock-free mirror before blocking
        drop(g);
        let mut spins = 0u32;
        while self.turn_a.load(SeqCst) != i && spins < SPIN {
            std::hint::spin_loop();
            spins += 1;
        }
        let mut g = self.state.lock().unwrap();
        while g.turn != Some(i) && !g.abort {
            g = self.tcv[i].wait(g).unwrap();
        }
        g.st[i] = St::Running;
    }

    pub fn finish(&self, i: usize) {
        let mut g = self.state.lock().unwrap();
        g.st[i] = St::Finished;
        if g.turn == Some(i) {
            g.turn = None;
            self.turn_a.store(usize::MAX, SeqCst);
        }
        self.events.fetch_add(1, SeqCst);
        self.cv.notify_one();
    }

    /// Controller loop; returns when all threads finished or a deadlock was diagnosed.
    pub fn control(&self, source: &mut Source, stuck_after: Duration) -> RunResult {
        let mut decisions = vec![];
        let mut widths = vec![];
        let mut g = self.state.lock().unwrap();
        loop {
            // wait until nobody holds the baton (the running thread reached its next yield point or finished)
            let t0 = Instant::now();
            let mut stuck: Vec<usize> = vec![];
            loop {
                let running: Vec<usize> = g.st.iter().enumerate().filter(|(_, s)| **s == St::Running).map(|(i, _)| i).collect();
                let not_started = g.st.iter().any(|s| *s == St::NotStarted);
                let pending_running: Vec<usize> = running.iter().cloned().filter(|i| !stuck.contains(i)).collect();
                if pending_running.is_empty() && !not_started {
                    break;
                }
                let left = stuck_after.checked_sub(t0.elapsed());
                match left {
                    None => {
                        // the running thread(s) did not come back: blocked inside the library
                        for i in pending_running {
                            stuck.push(i);
                        }
                        if not_started {
                            // a thread that never even started: treat as harness trouble, keep waiting a little longer
                        }
                        break;
                    }
                    Some(d) => {
                        // short spin on the event counter before blocking
                        let seen = self.events.load(SeqCst);
                        drop(g);
                        let mut spins = 0u32;
                        while self.events.load(SeqCst) == seen && spins < SPIN {
                            std::hint::spin_loop();
                            spins += 1;
                        }
                        g = self.state.lock().unwrap();
                        if self.events.load(SeqCst) == seen {
                            let (ng, _) = self.cv.wait_timeout(g, d.min(Duration::from_millis(200))).unwrap();
                            g = ng;
                        }
                    }
                }
            }
            let waiting: Vec<usize> = g.st.iter().enumerate().filter(|(_, s)| matches!(s, St::Waiting(_))).map(|(i, _)| i).collect();
            let unfinished: Vec<usize> = g.st.iter().enumerate().filter(|(_, s)| **s != St::Finished).map(|(i, _)| i).collect();
            if unfinished.is_empty() {
                let trace = g.trace.clone();
                return RunResult { end: RunEnd::Completed, trace, decisions, widths };
            }
            if waiting.is_empty() {
                // unfinished threads exist, none is at a yield point: all are stuck inside the library
                let still_running: Vec<usize> = g.st.iter().enumerate().filter(|(_, s)| **s == St::Running).map(|(i, _)| i).collect();
                if !still_running.is_empty() && still_running.iter().all(|i| stuck.contains(i)) {
                    g.abort = true;
                    for c in &self.tcv {
                        c.notify_all();
                    }
                    let trace = g.trace.clone();
                    return RunResult { end: RunEnd::Deadlock(still_running), trace, decisions, widths };
                }
                let (ng, _) = self.cv.wait_timeout(g, Duration::from_millis(50)).unwrap();
                g = ng;
                continue;
            }
            let pick = match source {
                Source::Random(rng) => rng.below(waiting.len()),
                Source::Pct { rng: _, prio, change_at } => {
                    let step = decisions.len();
                    if change_at.contains(&step) {
                        // lower the priority of the currently highest waiting thread
                        if let Some(&top) = waiting.iter().max_by_key(|i| prio[**i]) {
                            prio[top] = prio.iter().min().cloned().unwrap_or(0).saturating_sub(1);
                        }
                    }
                    let best = *waiting.iter().max_by_key(|i| prio[**i]).unwrap();
                    waiting.iter().position(|x| *x == best).unwrap()
                }
                Source::Script { script, widths: _ } => {
                    let k = decisions.len();
                    if k < script.len() {
                        script[k].min(waiting.len() - 1)
                    } else {
                        0
                    }
                }
            };
            decisions.push(pick);
            widths.push(waiting.len());
            let t = waiting[pick];
            let label = match g.st[t] {
                St::Waiting(l) => l,
                _ => "?",
            };
            g.trace.push((t, label));
            g.st[t] = St::Running;
            g.turn = Some(t);
            self.turn_a.store(t, SeqCst);
            self.tcv[t].notify_one();
        }
    }
}

pub fn pct_source(seed_rng: &mut Rng, threads: usize, depth: usize, horizon: usize) -> Source {
    let mut prio: Vec<u64> = (0..threads as u64).map(|i| 1000 + i).collect();
    seed_rng.shuffle(&mut prio);
    let change_at = (0..depth).map(|_| seed_rng.below(horizon.max(1))).collect();
    Source::Pct { rng: seed_rng.clone(), prio, change_at }
}
