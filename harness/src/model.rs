//! Reference model: one abstract tree of directories and byte files (DESIGN §2.2).

use crate::ops::{Kind, Op, Out, WStep};
use std::collections::BTreeMap;
use std::io::{Cursor, Seek, Write};

#[derive(Clone, PartialEq, Eq, Debug)]
pub enum Node {
    Dir,
    File(Vec<u8>),
}

#[derive(Clone, Debug, PartialEq, Eq, Default)]
pub struct Model {
    /// canonical path -> node; the root "" is always present in a well-formed model
    pub m: BTreeMap<String, Node>,
}

#[derive(Clone, Copy, Debug, PartialEq, Eq, Hash, PartialOrd, Ord)]
pub enum Class {
    Root,
    /// parent is an existing directory that does not contain the name
    Absent,
    File,
    EmptyDir,
    NonEmptyDir,
    /// some ancestor is a file
    UnderFile,
    /// parent missing (no file ancestor)
    ParentAbsent,
}

pub const ALL_CLASSES: &[Class] = &[
    Class::Root,
    Class::Absent,
    Class::File,
    Class::EmptyDir,
    Class::NonEmptyDir,
    Class::UnderFile,
    Class::ParentAbsent,
];

impl Class {
    pub fn name(&self) -> &'static str {
        match self {
            Class::Root => "root",
            Class::Absent => "absent",
            Class::File => "file",
            Class::EmptyDir => "emptydir",
            Class::NonEmptyDir => "nonemptydir",
            Class::UnderFile => "underfile",
            Class::ParentAbsent => "parentabsent",
        }
    }
    pub fn exists(&self) -> bool {
        matches!(self, Class::Root | Class::File | Class::EmptyDir | Class::NonEmptyDir)
    }
    pub fn is_dir(&self) -> bool {
        matches!(self, Class::Root | Class::EmptyDir | Class::NonEmptyDir)
    }
}

#[derive(Clone, Debug, PartialEq, Eq)]
pub enum Exp {
    /// must succeed with the model's effect
    Ok,
    /// must fail; `Some(kind)` when the property names the kind
    Err(Option<Kind>),
    /// outcome unconstrained, tree must not change (e.g. timestamp setters)
    AnyNoEffect,
    /// left unspecified by the property: nothing is demanded, the model is re-synchronised afterwards
    Unspec,
}

pub fn parent_of(p: &str) -> String {
    match p.rfind('/') {
        Some(i) => p[..i].to_string(),
        None => String::new(),
    }
}

pub fn name_of(p: &str) -> &str {
    match p.rfind('/') {
        Some(i) => &p[i + 1..],
        None => p,
    }
}

pub fn is_under(p: &str, ancestor: &str) -> bool {
    p.len() > ancestor.len() && p.starts_with(ancestor) && p.as_bytes()[ancestor.len()] == b'/'
}

pub fn ancestors(p: &str) -> Vec<String> {
    // proper ancestors, nearest first, including root ""
    let mut v = vec![];
    let mut cur = p.to_string();
    while !cur.is_empty() {
        cur = parent_of(&cur);
        v.push(cur.clone());
    }
    v
}

/// Interprets a write script with `std::io::Cursor` semantics (the reference for C04/C14).
pub fn interpret_wscript(initial: &[u8], append: bool, script: &[WStep]) -> Vec<u8> {
    let mut c = Cursor::new(initial.to_vec());
    if append {
        let _ = c.seek(std::io::SeekFrom::End(0));
    }
    for s in script {
        match s {
            WStep::Write(b) => {
                let _ = c.write_all(b);
            }
            WStep::Seek(w, o) => {
                let _ = c.seek(crate::ops::seek_from(*w, *o));
            }
            WStep::Flush => {}
        }
    }
    c.into_inner()
}

impl Model {
    pub fn new() -> Self {
        let mut m = BTreeMap::new();
        m.insert(String::new(), Node::Dir);
        Model { m }
    }
    pub fn get(&self, p: &str) -> Option<&Node> {
        self.m.get(p)
    }
    pub fn children(&self, p: &str) -> Vec<String> {
        let prefix = format!("{}/", p);
        self.m
            .range(prefix.clone()..)
            .take_while(|(k, _)| k.starts_with(&prefix))
            .filter(|(k, _)| !k[prefix.len()..].contains('/'))
            .map(|(k, _)| k[prefix.len()..].to_string())
            .collect()
    }
    pub fn descendants(&self, p: &str) -> Vec<String> {
        let prefix = format!("{}/", p);
        self.m
            .range(prefix.clone()..)
            .take_while(|(k, _)| k.starts_with(&prefix))
            .map(|(k, _)| k.clone())
            .collect()
    }
    pub fn class(&self, p: &str) -> Class {
        if p.is_empty() {
            return Class::Root;
        }
        match self.m.get(p) {
            Some(Node::File(_)) => Class::File,
            Some(Node::Dir) => {
                if self.children(p).is_empty() {
                    Class::EmptyDir
                } else {
                    Class::NonEmptyDir
                }
            }
            None => {
                let anc = ancestors(p);
                match self.m.get(&anc[0]) {
                    Some(Node::Dir) => {
                        // a directory parent under a file ancestor can only happen in ill-formed trees
                        Class::Absent
                    }
                    Some(Node::File(_)) => Class::UnderFile,
                    None => {
                        if anc.iter().any(|a| matches!(self.m.get(a), Some(Node::File(_)))) {
                            Class::UnderFile
                        } else {
                            Class::ParentAbsent
                        }
                    }
                }
            }
        }
    }
    pub fn well_formed(&self) -> bool {
        if self.m.get("") != Some(&Node::Dir) {
            return false;
        }
        self.m.keys().all(|k| k.is_empty() || self.m.get(&parent_of(k)) == Some(&Node::Dir))
    }

    fn missing_kind(c: Class) -> Option<Kind> {
        if c == Class::Absent {
            Some(Kind::NotFound)
        } else {
            None
        }
    }

    /// What the property demands for `op` in this state.
    pub fn expect(&self, op: &Op) -> Exp {
        let c = self.class(op.path());
        match op {
            Op::CreateDir(_) => match c {
                Class::Root => Exp::Unspec,
                Class::Absent => Exp::Ok,
                Class::File => Exp::Err(Some(Kind::FileExists)),
                Class::EmptyDir | Class::NonEmptyDir => Exp::Err(Some(Kind::DirExists)),
                _ => Exp::Err(None),
            },
            Op::CreateFile(..) => match c {
                Class::Root => Exp::Unspec,
                Class::Absent | Class::File => Exp::Ok,
                _ => Exp::Err(None),
            },
            Op::AppendFile(..) => match c {
                Class::Root => Exp::Unspec,
                Class::File => Exp::Ok,
                c => Exp::Err(Self::missing_kind(c)),
            },
            Op::RemoveFile(_) => match c {
                Class::Root => Exp::Unspec,
                Class::File => Exp::Ok,
                c => Exp::Err(Self::missing_kind(c)),
            },
            Op::RemoveDir(_) => match c {
                Class::Root => Exp::Unspec,
                Class::EmptyDir => Exp::Ok,
                c => Exp::Err(Self::missing_kind(c)),
            },
            Op::OpenRead(..) => match c {
                Class::File => Exp::Ok,
                c => Exp::Err(Self::missing_kind(c)),
            },
            Op::ReadDir(_) | Op::WalkDir(_) => {
                if c.is_dir() {
                    Exp::Ok
                } else {
                    Exp::Err(Self::missing_kind(c))
                }
            }
            Op::Metadata(_) => {
                if c.exists() {
                    Exp::Ok
                } else {
                    Exp::Err(Self::missing_kind(c))
                }
            }
            Op::Exists(_) | Op::IsFile(_) | Op::IsDir(_) => Exp::Ok,
            Op::ReadToString(p) => match c {
                Class::File => match self.m.get(p) {
                    Some(Node::File(b)) if std::str::from_utf8(b).is_ok() => Exp::Ok,
                    _ => Exp::Err(None),
                },
                c => Exp::Err(Self::missing_kind(c)),
            },
            Op::CreateDirAll(p) => {
                if matches!(c, Class::File | Class::UnderFile) {
                    Exp::Err(None)
                } else {
                    let _ = p;
                    Exp::Ok
                }
            }
            Op::RemoveDirAll(_) => match c {
                Class::Root => Exp::Unspec,
                Class::File => Exp::Err(None),
                _ => Exp::Ok,
            },
            Op::CopyFile(_, d) | Op::MoveFile(_, d) => {
                let dc = self.class(d);
                match c {
                    Class::Root | Class::EmptyDir | Class::NonEmptyDir => Exp::Unspec,
                    Class::File => {
                        if dc == Class::Absent {
                            Exp::Ok
                        } else {
                            Exp::Err(None)
                        }
                    }
                    Class::Absent if dc == Class::Absent => Exp::Err(Some(Kind::NotFound)),
                    _ => Exp::Err(None),
                }
            }
            Op::CopyDir(s, d) | Op::MoveDir(s, d) => {
                let dc = self.class(d);
                if is_under(d, s) || d == s {
                    // destination inside (or equal to) the source subtree: left unspecified
                    return Exp::Unspec;
                }
                match c {
                    Class::File => Exp::Unspec,
                    Class::Root => {
                        // d is always inside the root's subtree or the root itself
                        if d.is_empty() {
                            Exp::Err(None)
                        } else {
                            Exp::Unspec
                        }
                    }
                    Class::EmptyDir | Class::NonEmptyDir => {
                        if dc == Class::Absent {
                            Exp::Ok
                        } else {
                            Exp::Err(None)
                        }
                    }
                    _ => Exp::Err(None),
                }
            }
            Op::SetTime(..) => Exp::AnyNoEffect,
            Op::HoldOpen(..) | Op::Publish(_) => Exp::Unspec,
        }
    }

    /// Applies a successful `op` and returns the expected return value.
    pub fn apply(&mut self, op: &Op) -> Out {
        match op {
            Op::CreateDir(p) => {
                self.m.insert(p.clone(), Node::Dir);
                Out::Unit
            }
            Op::CreateFile(p, s) => {
                self.m.insert(p.clone(), Node::File(interpret_wscript(&[], false, s)));
                Out::Unit
            }
            Op::AppendFile(p, s) => {
                let old = match self.m.get(p) {
                    Some(Node::File(b)) => b.clone(),
                    _ => vec![],
                };
                self.m.insert(p.clone(), Node::File(interpret_wscript(&old, true, s)));
                Out::Unit
            }
            Op::RemoveFile(p) | Op::RemoveDir(p) => {
                self.m.remove(p);
                Out::Unit
            }
            Op::OpenRead(p, script) => {
                let b = match self.m.get(p) {
                    Some(Node::File(b)) => b.clone(),
                    _ => vec![],
                };
                if script.is_empty() {
                    Out::Bytes(b)
                } else {
                    let mut c = Cursor::new(b);
                    Out::Script(crate::ops::run_rscript(&mut c, script))
                }
            }
            Op::ReadDir(p) => Out::Names(self.children(p)),
            Op::Metadata(p) => match self.m.get(p) {
                Some(Node::File(b)) => Out::Meta { dir: false, len: b.len() as u64 },
                _ => Out::Meta { dir: true, len: 0 },
            },
            Op::Exists(p) => Out::Bool(self.m.contains_key(p)),
            Op::IsFile(p) => Out::Bool(matches!(self.m.get(p), Some(Node::File(_)))),
            Op::IsDir(p) => Out::Bool(matches!(self.m.get(p), Some(Node::Dir))),
            Op::ReadToString(p) => match self.m.get(p) {
                Some(Node::File(b)) => Out::Str(String::from_utf8_lossy(b).to_string()),
                _ => Out::Str(String::new()),
            },
            Op::WalkDir(p) => Out::Walk(self.descendants(p).into_iter().map(Ok).collect()),
            Op::CreateDirAll(p) => {
                let mut chain = ancestors(p);
                chain.insert(0, p.clone());
                for a in chain {
                    self.m.entry(a).or_insert(Node::Dir);
                }
                Out::Unit
            }
            Op::RemoveDirAll(p) => {
                if self.m.contains_key(p) {
                    for d in self.descendants(p) {
                        self.m.remove(&d);
                    }
                    self.m.remove(p);
                }
                Out::Unit
            }
            Op::CopyFile(s, d) => {
                let n = self.m.get(s).cloned().unwrap_or(Node::File(vec![]));
                self.m.insert(d.clone(), n);
                Out::Unit
            }
            Op::MoveFile(s, d) => {
                let n = self.m.remove(s).unwrap_or(Node::File(vec![]));
                self.m.insert(d.clone(), n);
                Out::Unit
            }
            Op::CopyDir(s, d) | Op::MoveDir(s, d) => {
                let desc = self.descendants(s);
                let count = desc.len() as u64;
                self.m.insert(d.clone(), Node::Dir);
                for k in &desc {
                    let n = self.m.get(k).cloned().unwrap();
                    self.m.insert(format!("{}{}", d, &k[s.len()..]), n);
                }
                if matches!(op, Op::MoveDir(..)) {
                    for k in &desc {
                        self.m.remove(k);
                    }
                    self.m.remove(s);
                    Out::Unit
                } else {
                    Out::Count(count)
                }
            }
            Op::SetTime(..) | Op::HoldOpen(..) | Op::Publish(_) => Out::Unit,
        }
    }

    /// Paths a *failed composite* may legitimately have changed.
    pub fn failure_region(op: &Op, p: &str) -> bool {
        match op {
            Op::CreateDirAll(t) => t == p || is_under(t, p),
            Op::RemoveDirAll(t) => t == p || is_under(p, t),
            Op::CopyDir(_, d) => d == p || is_under(p, d),
            Op::MoveDir(s, d) => d == p || is_under(p, d) || s == p || is_under(p, s),
            Op::CopyFile(_, d) => d == p,
            Op::MoveFile(s, d) => d == p || s == p,
            _ => false,
        }
    }
}
