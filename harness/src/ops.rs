//! Operation alphabet of the sync path API, result classes, and the guarded executor.

use crate::json::{bytes_repr, J};
use crate::panicmon::{guard, PanicInfo};
use std::io::{Read, Seek, SeekFrom, Write};
use std::time::{Duration, SystemTime};
use vfs::error::VfsErrorKind;
use vfs::{VfsError, VfsFileType, VfsPath};

#[derive(Clone, Debug, PartialEq, Eq, Hash, PartialOrd, Ord)]
pub enum Kind {
    NotFound,
    FileExists,
    DirExists,
    InvalidPath,
    NotSupported,
    Other,
    Io(String),
    AsyncIo(String),
    Panic,
}

impl Kind {
    pub fn name(&self) -> String {
        match self {
            Kind::NotFound => "NotFound".into(),
            Kind::FileExists => "FileExists".into(),
            Kind::DirExists => "DirExists".into(),
            Kind::InvalidPath => "InvalidPath".into(),
            Kind::NotSupported => "NotSupported".into(),
            Kind::Other => "Other".into(),
            Kind::Io(k) => format!("Io({})", k),
            Kind::AsyncIo(k) => format!("AsyncIo({})", k),
            Kind::Panic => "PANIC".into(),
        }
    }
    /// the three classes C02/C15 compare: NotFound | Exists | other
    pub fn class3(&self) -> &'static str {
        match self {
            Kind::NotFound => "NotFound",
            Kind::FileExists | Kind::DirExists => "Exists",
            Kind::Panic => "PANIC",
            _ => "other",
        }
    }
}

#[derive(Clone, Debug, PartialEq, Eq, PartialOrd, Ord)]
pub struct ErrInfo {
    pub kind: Kind,
    pub path: String,
    pub display: String,
    pub panic: Option<PanicInfo>,
}

impl ErrInfo {
    pub fn from_vfs(e: &VfsError) -> Self {
        let kind = match e.kind() {
            VfsErrorKind::FileNotFound => Kind::NotFound,
            VfsErrorKind::FileExists => Kind::FileExists,
            VfsErrorKind::DirectoryExists => Kind::DirExists,
            VfsErrorKind::InvalidPath => Kind::InvalidPath,
            VfsErrorKind::NotSupported => Kind::NotSupported,
            VfsErrorKind::Other(_) => Kind::Other,
            VfsErrorKind::IoError(io) => Kind::Io(format!("{:?}", io.kind())),
            VfsErrorKind::AsyncIoError(io) => Kind::AsyncIo(format!("{:?}", io.kind())),
        };
        ErrInfo { kind, path: e.path().clone(), display: e.to_string(), panic: None }
    }
    pub fn from_io(e: &std::io::Error) -> Self {
        ErrInfo {
            kind: Kind::Io(format!("{:?}", e.kind())),
            path: "<handle>".into(),
            display: e.to_string(),
            panic: None,
        }
    }
    pub fn from_panic(p: PanicInfo) -> Self {
        ErrInfo { kind: Kind::Panic, path: "<panic>".into(), display: format!("PANIC {} @ {}", p.message, p.location), panic: Some(p) }
    }
    pub fn is_handle_io(&self) -> bool {
        self.path == "<handle>"
    }
    pub fn to_json(&self) -> J {
        J::obj().set("kind", J::s(self.kind.name())).set("path", J::s(&self.path)).set("display", J::s(&self.display))
    }
}

#[derive(Clone, Debug, PartialEq, Eq)]
pub enum WStep {
    Write(Vec<u8>),
    /// whence 0=Start 1=Current 2=End
    Seek(u8, i64),
    Flush,
}

#[derive(Clone, Debug, PartialEq, Eq)]
pub enum RStep {
    Read(usize),
    Seek(u8, i64),
    ReadToEnd,
}

pub fn seek_from(whence: u8, off: i64) -> SeekFrom {
    match whence {
        0 => SeekFrom::Start(off as u64),
        1 => SeekFrom::Current(off),
        _ => SeekFrom::End(off),
    }
}

#[derive(Clone, Copy, Debug, PartialEq, Eq, Hash, PartialOrd, Ord)]
pub enum TimeField {
    Created,
    Modified,
    Accessed,
}

#[derive(Clone, Debug, PartialEq, Eq)]
pub enum Op {
    CreateDir(String),
    CreateFile(String, Vec<WStep>),
    AppendFile(String, Vec<WStep>),
    RemoveFile(String),
    RemoveDir(String),
    OpenRead(String, Vec<RStep>),
    ReadDir(String),
    Metadata(String),
    Exists(String),
    IsFile(String),
    IsDir(String),
    CreateDirAll(String),
    RemoveDirAll(String),
    CopyFile(String, String),
    MoveFile(String, String),
    CopyDir(String, String),
    MoveDir(String, String),
    ReadToString(String),
    WalkDir(String),
    SetTime(String, TimeField, u64, u32),
    /// engine pseudo-steps (never produced by gen_op, never run through `exec`): open a write handle and keep it
    /// open across later steps / drop the oldest kept handle (= publish)
    HoldOpen(String, bool, Vec<u8>),
    Publish(String),
}

pub const ALL_KINDS: &[&str] = &[
    "create_dir", "create_file", "append_file", "remove_file", "remove_dir", "open_read", "read_dir", "metadata",
    "exists", "is_file", "is_dir", "create_dir_all", "remove_dir_all", "copy_file", "move_file", "copy_dir",
    "move_dir", "read_to_string", "walk_dir", "set_time",
];

impl Op {
    pub fn name(&self) -> &'static str {
        match self {
            Op::CreateDir(_) => "create_dir",
            Op::CreateFile(..) => "create_file",
            Op::AppendFile(..) => "append_file",
            Op::RemoveFile(_) => "remove_file",
            Op::RemoveDir(_) => "remove_dir",
            Op::OpenRead(..) => "open_read",
            Op::ReadDir(_) => "read_dir",
            Op::Metadata(_) => "metadata",
            Op::Exists(_) => "exists",
            Op::IsFile(_) => "is_file",
            Op::IsDir(_) => "is_dir",
            Op::CreateDirAll(_) => "create_dir_all",
            Op::RemoveDirAll(_) => "remove_dir_all",
            Op::CopyFile(..) => "copy_file",
            Op::MoveFile(..) => "move_file",
            Op::CopyDir(..) => "copy_dir",
            Op::MoveDir(..) => "move_dir",
            Op::ReadToString(_) => "read_to_string",
            Op::WalkDir(_) => "walk_dir",
            Op::SetTime(_, f, ..) => match f {
                TimeField::Created => "set_creation_time",
                TimeField::Modified => "set_modification_time",
                TimeField::Accessed => "set_access_time",
            },
            Op::HoldOpen(..) => "hold_open_writer",
            Op::Publish(_) => "publish_held_writer",
        }
    }
    pub fn path(&self) -> &str {
        match self {
            Op::CreateDir(p) | Op::RemoveFile(p) | Op::RemoveDir(p) | Op::ReadDir(p) | Op::Metadata(p)
            | Op::Exists(p) | Op::IsFile(p) | Op::IsDir(p) | Op::CreateDirAll(p) | Op::RemoveDirAll(p)
            | Op::ReadToString(p) | Op::WalkDir(p) => p,
            Op::CreateFile(p, _) | Op::AppendFile(p, _) | Op::OpenRead(p, _) => p,
            Op::CopyFile(p, _) | Op::MoveFile(p, _) | Op::CopyDir(p, _) | Op::MoveDir(p, _) => p,
            Op::SetTime(p, ..) => p,
            Op::HoldOpen(p, ..) | Op::Publish(p) => p,
        }
    }
    pub fn dest(&self) -> Option<&str> {
        match self {
            Op::CopyFile(_, d) | Op::MoveFile(_, d) | Op::CopyDir(_, d) | Op::MoveDir(_, d) => Some(d),
            _ => None,
        }
    }
    pub fn is_observer(&self) -> bool {
        matches!(
            self,
            Op::OpenRead(..) | Op::ReadDir(_) | Op::Metadata(_) | Op::Exists(_) | Op::IsFile(_) | Op::IsDir(_)
                | Op::ReadToString(_) | Op::WalkDir(_)
        )
    }
    pub fn is_primitive_mutator(&self) -> bool {
        matches!(self, Op::CreateDir(_) | Op::CreateFile(..) | Op::AppendFile(..) | Op::RemoveFile(_) | Op::RemoveDir(_))
    }
    pub fn is_composite(&self) -> bool {
        matches!(
            self,
            Op::CreateDirAll(_) | Op::RemoveDirAll(_) | Op::CopyFile(..) | Op::MoveFile(..) | Op::CopyDir(..) | Op::MoveDir(..)
        )
    }
    pub fn render(&self) -> String {
        fn ws(s: &[WStep]) -> String {
            s.iter()
                .map(|x| match x {
                    WStep::Write(b) => format!("write({})", bytes_repr(b)),
                    WStep::Seek(w, o) => format!("seek({},{})", ["Start", "Current", "End"][*w as usize], o),
                    WStep::Flush => "flush".into(),
                })
                .collect::<Vec<_>>()
                .join(";")
        }
        fn rs(s: &[RStep]) -> String {
            s.iter()
                .map(|x| match x {
                    RStep::Read(n) => format!("read({})", n),
                    RStep::Seek(w, o) => format!("seek({},{})", ["Start", "Current", "End"][*w as usize], o),
                    RStep::ReadToEnd => "read_to_end".into(),
                })
                .collect::<Vec<_>>()
                .join(";")
        }
        match self {
            Op::CreateFile(p, s) => format!("create_file({:?})[{}]", p, ws(s)),
            Op::AppendFile(p, s) => format!("append_file({:?})[{}]", p, ws(s)),
            Op::OpenRead(p, s) => format!("open_file({:?})[{}]", p, rs(s)),
            Op::SetTime(p, _, s, n) => format!("{}({:?},{}s+{}ns)", self.name(), p, s, n),
            Op::HoldOpen(p, append, b) => format!("{}({:?})+write({}) [handle kept open]", if *append { "append_file" } else { "create_file" }, p, bytes_repr(b)),
            Op::Publish(p) => format!("drop(kept write handle of {:?})", p),
            _ => match self.dest() {
                Some(d) => format!("{}({:?} -> {:?})", self.name(), self.path(), d),
                None => format!("{}({:?})", self.name(), self.path()),
            },
        }
    }
}

#[derive(Clone, Debug, PartialEq, Eq)]
pub enum Out {
    Unit,
    Bool(bool),
    /// sorted child names
    Names(Vec<String>),
    Meta { dir: bool, len: u64 },
    Bytes(Vec<u8>),
    Str(String),
    Count(u64),
    /// walk items in order produced
    Walk(Vec<Result<String, ErrInfo>>),
    /// results of a read script: one entry per step
    Script(Vec<ScriptRes>),
}

#[derive(Clone, Debug, PartialEq, Eq)]
pub enum ScriptRes {
    N(u64),
    Data(Vec<u8>),
    Err(String),
    Done,
}

impl Out {
    pub fn render(&self) -> String {
        match self {
            Out::Unit => "()".into(),
            Out::Bool(b) => format!("{}", b),
            Out::Names(n) => format!("names{:?}", n),
            Out::Meta { dir, len } => format!("meta({},{})", if *dir { "dir" } else { "file" }, len),
            Out::Bytes(b) => format!("bytes({})", bytes_repr(b)),
            Out::Str(s) => format!("str({})", bytes_repr(s.as_bytes())),
            Out::Count(c) => format!("count({})", c),
            Out::Walk(w) => format!(
                "walk[{}]",
                w.iter()
                    .map(|x| match x {
                        Ok(p) => p.clone(),
                        Err(e) => format!("ERR<{}>", e.kind.name()),
                    })
                    .collect::<Vec<_>>()
                    .join(",")
            ),
            Out::Script(s) => format!(
                "script[{}]",
                s.iter()
                    .map(|x| match x {
                        ScriptRes::N(n) => format!("{}", n),
                        ScriptRes::Data(d) => bytes_repr(d),
                        ScriptRes::Err(e) => format!("ERR<{}>", e),
                        ScriptRes::Done => "ok".into(),
                    })
                    .collect::<Vec<_>>()
                    .join(",")
            ),
        }
    }
}

pub type Res = Result<Out, ErrInfo>;

pub fn render_res(r: &Res) -> String {
    match r {
        Ok(o) => format!("Ok {}", o.render()),
        Err(e) => format!("Err {} path={:?} [{}]", e.kind.name(), e.path, e.display),
    }
}

pub fn res_class(r: &Res) -> String {
    match r {
        Ok(_) => "Ok".into(),
        Err(e) => format!("Err({})", e.kind.name()),
    }
}

/// VfsPath for a canonical path string ("" or "/a/b")
pub fn at(root: &VfsPath, p: &str) -> VfsPath {
    if p.is_empty() {
        root.clone()
    } else {
        root.join(&p[1..]).expect("canonical path must join")
    }
}

fn verr<T>(r: Result<T, VfsError>) -> Result<T, ErrInfo> {
    r.map_err(|e| ErrInfo::from_vfs(&e))
}
fn ioerr<T>(r: std::io::Result<T>) -> Result<T, ErrInfo> {
    r.map_err(|e| ErrInfo::from_io(&e))
}

pub fn run_wscript<W: Write + Seek + ?Sized>(w: &mut W, script: &[WStep]) -> Vec<ScriptRes> {
    let mut out = vec![];
    for s in script {
        out.push(match s {
            WStep::Write(b) => match w.write_all(b) {
                Ok(()) => ScriptRes::N(b.len() as u64),
                Err(e) => ScriptRes::Err(format!("{:?}", e.kind())),
            },
            WStep::Seek(wh, off) => match w.seek(seek_from(*wh, *off)) {
                Ok(n) => ScriptRes::N(n),
                Err(e) => ScriptRes::Err(format!("{:?}", e.kind())),
            },
            WStep::Flush => match w.flush() {
                Ok(()) => ScriptRes::Done,
                Err(e) => ScriptRes::Err(format!("{:?}", e.kind())),
            },
        });
    }
    out
}

/// Reads with the handle's own `read` in a loop until `n` bytes or EOF (0) — short reads are legal.
pub fn read_upto<R: Read + ?Sized>(r: &mut R, n: usize) -> std::io::Result<Vec<u8>> {
    let mut buf = vec![0u8; n];
    let mut got = 0;
    if n == 0 {
        let k = r.read(&mut buf[..0])?;
        if k != 0 {
            return Err(std::io::Error::new(std::io::ErrorKind::Other, "read into empty buffer returned non-zero"));
        }
        return Ok(buf);
    }
    while got < n {
        let k = r.read(&mut buf[got..])?;
        if k == 0 {
            break;
        }
        if k > n - got {
            return Err(std::io::Error::new(std::io::ErrorKind::Other, "read returned more than the buffer holds"));
        }
        got += k;
    }
    buf.truncate(got);
    Ok(buf)
}

pub fn run_rscript<R: Read + Seek + ?Sized>(r: &mut R, script: &[RStep]) -> Vec<ScriptRes> {
    let mut out = vec![];
    for s in script {
        out.push(match s {
            RStep::Read(n) => match read_upto(r, *n) {
                Ok(d) => ScriptRes::Data(d),
                Err(e) => ScriptRes::Err(format!("{:?}", e.kind())),
            },
            RStep::Seek(wh, off) => match r.seek(seek_from(*wh, *off)) {
                Ok(n) => ScriptRes::N(n),
                Err(e) => ScriptRes::Err(format!("{:?}", e.kind())),
            },
            RStep::ReadToEnd => {
                let mut v = vec![];
                match r.read_to_end(&mut v) {
                    Ok(_) => ScriptRes::Data(v),
                    Err(e) => ScriptRes::Err(format!("{:?}", e.kind())),
                }
            }
        });
    }
    out
}

pub fn systime(secs: u64, nanos: u32) -> SystemTime {
    SystemTime::UNIX_EPOCH + Duration::new(secs, nanos)
}

fn exec_inner(root: &VfsPath, op: &Op) -> Res {
    exec_inner_via(&|p: &str| at(root, p), op)
}

fn exec_inner_via(at_fn: &dyn Fn(&str) -> VfsPath, op: &Op) -> Res {
    let root = &();
    let at = |_: &(), p: &str| at_fn(p);
    match op {
        Op::CreateDir(p) => verr(at(root, p).create_dir()).map(|_| Out::Unit),
        Op::CreateFile(p, script) => {
            let mut w = verr(at(root, p).create_file())?;
            for s in script {
                match s {
                    WStep::Write(b) => ioerr(w.write_all(b))?,
                    WStep::Seek(wh, off) => {
                        // a failing seek (before the start) leaves the position unchanged; the session goes on
                        let _ = w.seek(seek_from(*wh, *off));
                    }
                    WStep::Flush => ioerr(w.flush())?,
                }
            }
            ioerr(w.flush())?;
            drop(w);
            Ok(Out::Unit)
        }
        Op::AppendFile(p, script) => {
            let mut w = verr(at(root, p).append_file())?;
            for s in script {
                match s {
                    WStep::Write(b) => ioerr(w.write_all(b))?,
                    WStep::Seek(wh, off) => {
                        // a failing seek (before the start) leaves the position unchanged; the session goes on
                        let _ = w.seek(seek_from(*wh, *off));
                    }
                    WStep::Flush => ioerr(w.flush())?,
                }
            }
            ioerr(w.flush())?;
            drop(w);
            Ok(Out::Unit)
        }
        Op::RemoveFile(p) => verr(at(root, p).remove_file()).map(|_| Out::Unit),
        Op::RemoveDir(p) => verr(at(root, p).remove_dir()).map(|_| Out::Unit),
        Op::OpenRead(p, script) => {
            let mut r = verr(at(root, p).open_file())?;
            if script.is_empty() {
                let mut v = vec![];
                ioerr(r.read_to_end(&mut v))?;
                Ok(Out::Bytes(v))
            } else {
                // "can be read" is one observation: File::open on a directory succeeds on Linux and only the
                // first read fails, so probe once (and rewind) before the script starts
                let mut probe = [0u8; 1];
                ioerr(r.read(&mut probe))?;
                ioerr(r.seek(SeekFrom::Start(0)))?;
                Ok(Out::Script(run_rscript(&mut *r, script)))
            }
        }
        Op::ReadDir(p) => {
            let it = verr(at(root, p).read_dir())?;
            let mut names: Vec<String> = it.map(|c| c.filename()).collect();
            names.sort();
            Ok(Out::Names(names))
        }
        Op::Metadata(p) => {
            let m = verr(at(root, p).metadata())?;
            Ok(Out::Meta { dir: m.file_type == VfsFileType::Directory, len: m.len })
        }
        Op::Exists(p) => verr(at(root, p).exists()).map(Out::Bool),
        Op::IsFile(p) => verr(at(root, p).is_file()).map(Out::Bool),
        Op::IsDir(p) => verr(at(root, p).is_dir()).map(Out::Bool),
        Op::CreateDirAll(p) => verr(at(root, p).create_dir_all()).map(|_| Out::Unit),
        Op::RemoveDirAll(p) => verr(at(root, p).remove_dir_all()).map(|_| Out::Unit),
        Op::CopyFile(s, d) => verr(at(root, s).copy_file(&at(root, d))).map(|_| Out::Unit),
        Op::MoveFile(s, d) => verr(at(root, s).move_file(&at(root, d))).map(|_| Out::Unit),
        Op::CopyDir(s, d) => verr(at(root, s).copy_dir(&at(root, d))).map(Out::Count),
        Op::MoveDir(s, d) => verr(at(root, s).move_dir(&at(root, d))).map(|_| Out::Unit),
        Op::ReadToString(p) => verr(at(root, p).read_to_string()).map(Out::Str),
        Op::WalkDir(p) => {
            let it = verr(at(root, p).walk_dir())?;
            let mut items = vec![];
            for (i, item) in it.enumerate() {
                items.push(match item {
                    Ok(p) => Ok(p.as_str().to_string()),
                    Err(e) => Err(ErrInfo::from_vfs(&e)),
                });
                if i > 5000 {
                    items.push(Err(ErrInfo {
                        kind: Kind::Other,
                        path: "<harness>".into(),
                        display: "walk_dir did not terminate within 5000 items".into(),
                        panic: None,
                    }));
                    break;
                }
            }
            Ok(Out::Walk(items))
        }
        Op::HoldOpen(..) | Op::Publish(_) => Err(ErrInfo { kind: Kind::Other, path: "<harness>".into(), display: "pseudo-step executed outside the engine".into(), panic: None }),
        Op::SetTime(p, f, s, n) => {
            let t = systime(*s, *n);
            let path = at(root, p);
            verr(match f {
                TimeField::Created => path.set_creation_time(t),
                TimeField::Modified => path.set_modification_time(t),
                TimeField::Accessed => path.set_access_time(t),
            })
            .map(|_| Out::Unit)
        }
    }
}

/// Like `exec`, but every path of the operation is obtained through `at_fn` (e.g. via hostile join expressions).
pub fn exec_via(at_fn: &dyn Fn(&str) -> VfsPath, op: &Op) -> Res {
    match guard(|| exec_inner_via(at_fn, op)) {
        Ok(r) => r,
        Err(p) => Err(ErrInfo::from_panic(p)),
    }
}

/// Guarded execution: a panic becomes `Err(kind = Panic)`.
pub fn exec(root: &VfsPath, op: &Op) -> Res {
    match guard(|| exec_inner(root, op)) {
        Ok(r) => r,
        Err(p) => Err(ErrInfo::from_panic(p)),
    }
}
