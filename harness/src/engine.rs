//! Lock-step history engine: generated histories on a generated configuration, a full snapshot after
//! every step, and all snapshot-based monitors (contract C01/C09, structure C03, consistency C05,
//! lower-layer protection C08, tombstones C10, error labelling C12, panics C13).

use crate::cfg::{build, Cfg};
use crate::errmon;
use crate::gen::{gen_op, Domain, Universe};
use crate::json::J;
use crate::model::{is_under, parent_of, Class, Exp, Model, Node};
use crate::monfs::Event;
use crate::ops::{exec, render_res, res_class, ErrInfo, Kind, Op, Out, Res};
use crate::prepop::{apply_plan, gen_plan, outer_overlay, Plan};
use crate::report::{Acc, Violation};
use crate::rng::Rng;
use crate::snapshot::{check_consistency, check_dir_to_file, check_structure, diff_model, snapshot, RuleViolation, Snap};
use std::collections::{BTreeMap, BTreeSet};
use std::sync::atomic::{AtomicU64, Ordering};
use std::sync::Mutex;
use std::time::SystemTime;

pub type CfgGen = fn(&mut Rng) -> Cfg;

#[derive(Clone)]
pub struct Spec {
    pub tag: &'static str,
    pub histories: u64,
    pub steps: (usize, usize),
    pub domain: Domain,
    pub cfg_gen: CfgGen,
    pub prepop: bool,
    /// Some(prop): the contract monitor runs in lock-step with the model and reports under `prop`
    pub contract: Option<&'static str>,
    pub only: Option<u64>,
    pub seed: u64,
    pub workers: usize,
    /// per-mille of steps during which one underlying call (or handle read/write/flush) is made to fail
    /// (C08: lower layers must stay untouched for failing calls as well)
    pub fault_permille: u64,
}

pub fn relation(p: &str, op: &Op) -> &'static str {
    let t = op.path();
    if let Some(d) = op.dest() {
        if p == d {
            return "dest";
        }
        if is_under(p, d) {
            return "dest-desc";
        }
        if is_under(d, p) && !is_under(t, p) && p != t {
            return "dest-ancestor";
        }
    }
    if p == t {
        "self"
    } else if parent_of(p) == t {
        "child"
    } else if is_under(p, t) {
        "descendant"
    } else if parent_of(t) == p {
        "parent"
    } else if is_under(t, p) {
        "ancestor"
    } else {
        "other"
    }
}

fn gen_class(s: &str) -> String {
    // generalise an expected/observed rendering to a class for signatures
    if s.starts_with("Ok(") {
        if s.starts_with("Ok(true") || s.starts_with("Ok(false") {
            return s.trim_end_matches("..").to_string();
        }
        "Ok".into()
    } else if s.starts_with("Err") {
        "Err".into()
    } else if s.starts_with('[') || s.starts_with("missing") || s.starts_with("extra") {
        "set".into()
    } else if s.contains("B:") {
        "bytes".into()
    } else if s.starts_with("dir,") || s.starts_with("file,") {
        s.split(',').next().unwrap().to_string()
    } else {
        s.chars().filter(|c| !c.is_ascii_digit()).collect()
    }
}

struct Hist<'a> {
    spec: &'a Spec,
    idx: u64,
    cfg: Cfg,
    family: String,
    universe: Universe,
    plan: Option<Plan>,
    trace: Vec<String>,
}

impl<'a> Hist<'a> {
    fn detail(&self, step: usize, extra: J) -> J {
        let mut j = J::obj()
            .set("tag", J::s(self.spec.tag))
            .set("seed", J::i(self.spec.seed))
            .set("history", J::i(self.idx))
            .set("config", J::s(self.cfg.desc()))
            .set("names", J::arr(self.universe.names.iter().map(J::s)))
            .set("step", J::i(step as u64))
            .set("trace", J::arr(self.trace.iter().map(J::s)));
        if let Some(p) = &self.plan {
            j.put("layers", J::arr(p.render().iter().map(J::s)));
        }
        j.put("what", extra);
        j
    }
    fn order(&self, step: usize) -> u64 {
        self.idx * 1000 + step as u64
    }
}

/// keys: `[ovl:]op|class[|destclass]` or `[ovl:]op|*`
pub fn avoid_match(avoid: &BTreeSet<String>, op: &Op, m: &Model, cfg: &Cfg) -> bool {
    let c = m.class(op.path()).name();
    let mut keys = vec![format!("{}|{}", op.name(), c), format!("{}|*", op.name())];
    if let Some(d) = op.dest() {
        keys.push(format!("{}|{}|{}", op.name(), c, m.class(d).name()));
    }
    for k in keys {
        if avoid.contains(&k) || (cfg.has_overlay() && avoid.contains(&format!("ovl:{}", k))) {
            return true;
        }
    }
    false
}

type DeepState = BTreeMap<String, (bool, Vec<u8>, Option<SystemTime>, Option<SystemTime>)>;

/// Deep state of one filesystem node read through its own root (type, bytes, created, modified)
fn deep_state(root: &vfs::VfsPath, prefix: &str) -> Result<DeepState, String> {
    let mut m = BTreeMap::new();
    // walk items are absolute paths of the filesystem `root` belongs to
    let items = crate::snapshot::walk(root, prefix).map_err(|e| e.display.clone())?;
    let mut paths = vec![prefix.to_string()];
    for it in items {
        match it {
            Ok(p) => paths.push(p),
            Err(e) => return Err(e.display),
        }
    }
    for p in paths {
        let vp = crate::ops::at(root, &p);
        let md = vp.metadata().map_err(|e| e.to_string())?;
        let dir = md.file_type == vfs::VfsFileType::Directory;
        let bytes = if dir { vec![] } else { crate::snapshot::read_all(&vp, 4096).map_err(|e| e.display)? };
        m.insert(p, (dir, bytes, md.created, md.modified));
    }
    Ok(m)
}

fn new_rule_violations(prev: &BTreeSet<(String, String)>, cur: &[RuleViolation]) -> Vec<RuleViolation> {
    cur.iter().filter(|v| !prev.contains(&(v.rule.to_string(), v.path.clone()))).cloned().collect()
}

fn rv_set(v: &[RuleViolation]) -> BTreeSet<(String, String)> {
    v.iter().map(|x| (x.rule.to_string(), x.path.clone())).collect()
}

fn compare_out(expected: &Out, got: &Out, start: &str) -> Option<String> {
    match (expected, got) {
        (Out::Walk(e), Out::Walk(g)) => {
            let es: BTreeSet<&String> = e.iter().filter_map(|x| x.as_ref().ok()).collect();
            let mut seen: BTreeSet<&String> = BTreeSet::new();
            for it in g {
                match it {
                    Err(er) => return Some(format!("walk item Err({})", er.kind.name())),
                    Ok(p) => {
                        // every directory before anything inside it
                        let par = parent_of(p);
                        if par != start && !seen.contains(&par) {
                            return Some(format!("walk yields {:?} before its directory {:?}", p, par));
                        }
                        if !seen.insert(p) {
                            return Some(format!("walk yields {:?} twice", p));
                        }
                    }
                }
            }
            if es != seen {
                return Some(format!("walk set differs: expected {:?} got {:?}", es, seen));
            }
            None
        }
        (a, b) => {
            if a == b {
                None
            } else {
                Some(format!("expected {} got {}", a.render(), b.render()))
            }
        }
    }
}

fn run_history(spec: &Spec, idx: u64, acc: &mut Acc) {
    let mut rng = Rng::derive(spec.seed, spec.tag, idx);
    let cfg = (spec.cfg_gen)(&mut rng);
    let universe = Universe::generate(&mut rng);
    let built = build(&cfg);
    let mut h = Hist { spec, idx, family: cfg.family(), cfg: cfg.clone(), universe: universe.clone(), plan: None, trace: vec![] };
    let verbose = spec.only.is_some();

    // --- pre-population of the outermost overlay
    if spec.prepop {
        if let Some((ovl, prefix)) = outer_overlay(&built) {
            let nlayers = built.layer_views(ovl).len();
            if nlayers >= 2 {
                let plan = gen_plan(&mut rng, &universe, nlayers, ovl, prefix);
                if let Err(e) = apply_plan(&built, &plan) {
                    acc.count("setup_failed", 1);
                    acc.note("setup_failures", format!("{} :: {}", cfg.shape(), e.chars().take(120).collect::<String>()));
                    return;
                }
                h.plan = Some(plan);
            }
        }
    }
    let mut domain = spec.domain.clone();
    if cfg.has_phys() {
        // O_APPEND semantics differ by design: seeks inside append sessions only on memory-backed configurations
        domain.append_seeks = false;
    }
    let lowers = built.lower_regions();
    let lower_roots: Vec<(usize, vfs::VfsPath, String)> = built.lower_views();
    let mut lower_state: Vec<Option<DeepState>> = lower_roots.iter().map(|(_, r, p)| deep_state(r, p).ok()).collect();
    if lower_state.iter().any(|s| s.is_none()) {
        acc.count("lower_deep_snapshot_failed_at_setup", 1);
    }

    let read_buf = *rng.pick(&[1usize, 2, 7, 4096, 8192, 8193]);
    let probe = universe.paths.clone();
    built.ctl.start_recording();
    let mut snap = snapshot(&built.root, &probe, read_buf);
    let ev0 = built.ctl.stop_recording();
    check_observer_events(&h, 0, "snapshot", &ev0, acc);

    let mut model = snap.tree();
    let mut contract_active = spec.contract.is_some();
    if let (Some(prop), Some(plan)) = (spec.contract, &h.plan) {
        // the overlay must present exactly the union of the generated layers
        let d = diff_model(&snap, &plan.union);
        if let Some(first) = d.first() {
            acc.violate(Violation {
                property: prop,
                signature: format!("initial-union|{}:{}→{}|{}", first.observer, gen_class(&first.expected), gen_class(&first.got), h.family),
                summary: format!("overlay does not show the union of its layers at {:?}: {} expected {} got {}", first.path, first.observer, first.expected, first.got),
                detail: h.detail(0, J::s(format!("{:?}", d.iter().take(5).map(|x| format!("{} {} exp {} got {}", x.path, x.observer, x.expected, x.got)).collect::<Vec<_>>()))),
                order: h.order(0),
            });
            model = snap.tree();
        } else {
            model = plan.union.clone();
        }
    }
    let mut prev_c05 = BTreeSet::new();
    let mut prev_c03 = BTreeSet::new();
    let mut prev_diffs: BTreeSet<(String, &'static str)> = crate::snapshot::diff_model(&snap, &model).into_iter().map(|d| (d.path, d.observer)).collect();
    {
        let c5 = check_consistency(&snap);
        report_rules(&h, "C05", 0, None, None, &new_rule_violations(&prev_c05, &c5), acc);
        prev_c05 = rv_set(&c5);
        let c3 = check_structure(&snap);
        report_rules(&h, "C03", 0, None, None, &new_rule_violations(&prev_c03, &c3), acc);
        prev_c03 = rv_set(&c3);
    }
    errmon::check_snapshot(&h.cfg, &snap, &snap.tree(), acc, &|sig, summary, what| Violation {
        property: "C12",
        signature: sig,
        summary,
        detail: h.detail(0, what),
        order: h.order(0),
    });
    check_markers(&h, 0, &snap, acc);
    let mut tombstones: BTreeSet<String> = BTreeSet::new();
    let mut held: Vec<(String, Box<dyn vfs::SeekAndWrite + Send>)> = vec![];
    let mut planned: std::collections::VecDeque<Op> = std::collections::VecDeque::new();

    let nsteps = rng.range(spec.steps.0, spec.steps.1);
    acc.evaluations += 1;
    for step in 1..=nsteps {
        let pre_tree = snap.tree();
        let gen_model = if contract_active { &model } else { &pre_tree };
        // listed findings: steered histories (3 of 4) never generate a step matching a listed trigger so that long
        // histories run to completion; unsteered ones run the step, report what is observed and end there
        // (state and reference have diverged once a genuine defect fired).
        let steered = idx % 4 != 0;
        let mut op = gen_op(&mut rng, &domain, &universe, gen_model);
        if spec.contract.is_none() && domain.hold_handles {
            if let Some(next) = planned.pop_front() {
                op = next;
            } else if !held.is_empty() && rng.chance(1, 6) {
                op = Op::Publish(held[0].0.clone());
            } else if !held.is_empty() && rng.chance(1, 2) {
                // pull the rug from under the kept handle: operate on its path and on its parent directory
                let hp = held[rng.below(held.len())].0.clone();
                let par = parent_of(&hp);
                let other = rng.pick(&universe.paths).clone();
                op = match rng.below(9) {
                    0 | 1 => Op::RemoveFile(hp),
                    2 | 3 if !par.is_empty() => Op::RemoveDir(par),
                    4 if !par.is_empty() => Op::RemoveDirAll(par),
                    5 if !par.is_empty() => Op::CreateFile(par, vec![crate::ops::WStep::Write(b"now a file".to_vec())]),
                    6 => Op::CreateDir(hp),
                    7 if !par.is_empty() && !is_under(&other, &par) && other != par => Op::MoveDir(par, other),
                    _ => Op::CreateDirAll(hp),
                };
            } else if held.len() < 2 && rng.chance(1, 9) {
                // prefer an existing file or a free name in an existing directory
                let cands: Vec<&String> = universe.paths.iter().filter(|p| matches!(gen_model.class(p), Class::File | Class::Absent)).collect();
                let p = if cands.is_empty() { rng.pick(&universe.paths).clone() } else { (*rng.pick(&cands)).clone() };
                let blen = rng.range(1, 9);
                // half of the kept handles get a scripted rug-pull before they are published
                let par = parent_of(&p);
                if rng.chance(1, 2) && !par.is_empty() {
                    let other = rng.pick(&universe.paths).clone();
                    let file_at = |q: &str| Op::CreateFile(q.to_string(), vec![crate::ops::WStep::Write(b"now a file".to_vec())]);
                    let plan: Vec<Op> = match rng.below(6) {
                        0 => vec![Op::RemoveFile(p.clone()), Op::RemoveDir(par.clone()), file_at(&par), Op::Publish(p.clone())],
                        1 => vec![Op::RemoveFile(p.clone()), Op::CreateDir(p.clone()), Op::Publish(p.clone())],
                        2 => vec![Op::RemoveDirAll(par.clone()), Op::Publish(p.clone())],
                        3 => vec![Op::RemoveDirAll(par.clone()), file_at(&par), Op::Publish(p.clone())],
                        4 if !is_under(&other, &par) && other != par => vec![Op::MoveDir(par.clone(), other), Op::Publish(p.clone())],
                        _ => vec![Op::RemoveFile(p.clone()), Op::RemoveDir(par.clone()), Op::CreateDir(par.clone()), Op::Publish(p.clone())],
                    };
                    planned.extend(plan);
                }
                op = Op::HoldOpen(p, rng.chance(1, 2), rng.bytes(blen, true));
            }
        }
        let mut tainted = false;
        if !spec.domain.avoid.is_empty() {
            let mut tries = 0;
            while avoid_match(&spec.domain.avoid, &op, gen_model, &cfg) {
                if !steered || tries > 40 {
                    tainted = true;
                    break;
                }
                op = gen_op(&mut rng, &domain, &universe, gen_model);
                tries += 1;
            }
        }
        let class = gen_model.class(op.path());
        let dclass = op.dest().map(|d| gen_model.class(d));
        let exp = if contract_active { model.expect(&op) } else { Exp::Unspec };

        crate::panicmon::set_context(format!("tag={} history={} step={} config={} op={} [target {}] (earlier steps: {})", spec.tag, idx, step, cfg.desc(), op.render(), class.name(), h.trace.iter().rev().take(6).rev().cloned().collect::<Vec<_>>().join(" ; ")));
        built.ctl.start_recording();
        let faulted = spec.fault_permille > 0 && rng.chance(spec.fault_permille, 1000);
        if faulted {
            let writes = matches!(op, Op::AppendFile(..) | Op::CreateFile(..) | Op::CopyFile(..) | Op::MoveFile(..) | Op::CopyDir(..) | Op::MoveDir(..));
            if writes && rng.chance(1, 2) {
                built.ctl.arm(0, usize::MAX);
                built.ctl.arm_handle(rng.range(1, 3) as u64);
            } else if rng.chance(2, 3) {
                built.ctl.arm(rng.range(1, 14) as u64, usize::MAX);
            } else {
                built.ctl.arm(rng.range(1, 45) as u64, usize::MAX);
            }
        }
        let res = match &op {
            Op::HoldOpen(p, append, bytes) => {
                let path = crate::ops::at(&built.root, p);
                match crate::panicmon::guard(|| -> Result<Box<dyn vfs::SeekAndWrite + Send>, vfs::VfsError> {
                    let mut w = if *append { path.append_file()? } else { path.create_file()? };
                    let _ = std::io::Write::write_all(&mut w, bytes);
                    Ok(w)
                }) {
                    Ok(Ok(w)) => {
                        held.push((p.clone(), w));
                        Ok(Out::Unit)
                    }
                    Ok(Err(e)) => Err(ErrInfo::from_vfs(&e)),
                    Err(pi) => Err(ErrInfo::from_panic(pi)),
                }
            }
            Op::Publish(pp) if !held.iter().any(|h| &h.0 == pp) => Ok(Out::Unit),
            Op::Publish(pp) => {
                let i = held.iter().position(|h| &h.0 == pp).unwrap_or(0);
                let (_, w) = held.remove(i);
                match crate::panicmon::guard(move || drop(w)) {
                    Ok(()) => Ok(Out::Unit),
                    Err(pi) => Err(ErrInfo::from_panic(pi)),
                }
            }
            _ => exec(&built.root, &op),
        };
        if faulted {
            let (_, inj, _, hinj) = built.ctl.disarm();
            acc.count("steps_with_injected_fault", inj + hinj);
        }
        let ev = built.ctl.stop_recording();
        built.ctl.start_recording();
        let after = snapshot(&built.root, &probe, read_buf);
        let sev = built.ctl.stop_recording();
        acc.steps += 1;
        acc.count("observer_calls", after.calls);
        acc.count("underlying_calls_recorded", (ev.len() + sev.len()) as u64);
        acc.fingerprints.insert(after.fingerprint() ^ (h.family.len() as u64).wrapping_mul(0x9E37));
        acc.cell(format!("{}|{}|{}|{}", op.name(), class.name(), if res.is_ok() { "Ok" } else { "Err" }, h.family));
        h.trace.push(format!("{:>2}. {} [{}{}] => {}", step, op.render(), class.name(), dclass.map(|d| format!("->{}", d.name())).unwrap_or_default(), render_res(&res)));
        if verbose {
            eprintln!("{}", h.trace.last().unwrap());
        }
        let clsig = match dclass {
            Some(d) => format!("{}->{}", class.name(), d.name()),
            None => class.name().to_string(),
        };

        // ---- C13 panics (op itself and observers)
        let mut panicked = false;
        if let Err(e) = &res {
            if let Some(p) = &e.panic {
                panicked = true;
                acc.violate(Violation {
                    property: "C13",
                    signature: format!("panic|{}|{}|{}|{}", op.name(), clsig, p.head(), p.file()),
                    summary: format!("{} panicked: {} at {}", op.render(), p.message, p.location),
                    detail: h.detail(step, J::s(&e.display)),
                    order: h.order(step),
                });
            }
        }
        for (m, p, e) in after.panics() {
            panicked = true;
            let pi = e.panic.clone().unwrap();
            acc.violate(Violation {
                property: "C13",
                signature: format!("panic|observer:{}|{}|{}|{}", m, pre_tree.class(&p).name(), pi.head(), pi.file()),
                summary: format!("observer {}({:?}) panicked: {} at {}", m, p, pi.message, pi.location),
                detail: h.detail(step, J::s(&e.display)),
                order: h.order(step),
            });
        }

        // ---- C12 error labelling / classification
        if let Err(e) = &res {
            errmon::check_op_error(&h.cfg, &op, &pre_tree, e, acc, &|sig, summary, what| Violation {
                property: "C12",
                signature: sig,
                summary,
                detail: h.detail(step, what),
                order: h.order(step),
            });
        }
        if let Ok(Out::Walk(items)) = &res {
            for it in items {
                if let Err(e) = it {
                    errmon::check_walk_item(&h.cfg, op.path(), e, acc, &|sig, summary, what| Violation {
                        property: "C12",
                        signature: sig,
                        summary,
                        detail: h.detail(step, what),
                        order: h.order(step),
                    });
                }
            }
        }
        errmon::check_snapshot(&h.cfg, &after, &after.tree(), acc, &|sig, summary, what| Violation {
            property: "C12",
            signature: sig,
            summary,
            detail: h.detail(step, what),
            order: h.order(step),
        });

        // ---- C08 lower layers / observers mutate nothing
        for e in ev.iter().filter(|e| e.is_mutating() && crate::cfg::event_in_regions(e, &lowers)) {
            acc.violate(Violation {
                property: "C08",
                signature: format!("lower-mutated|{}|{}|via:{}|{}", op.name(), clsig, e.method, h.family),
                summary: format!("{} issued mutating call {} on a lower layer", op.render(), e.render()),
                detail: h.detail(step, J::arr(ev.iter().map(|e| J::s(e.render())))),
                order: h.order(step),
            });
        }
        if op.is_observer() {
            check_observer_events(&h, step, op.name(), &ev, acc);
        }
        check_observer_events(&h, step, "snapshot", &sev, acc);
        for (i, (nid, r, pfx)) in lower_roots.iter().enumerate() {
            let now = deep_state(r, pfx).ok();
            if let (Some(a), Some(b)) = (&lower_state[i], &now) {
                if a != b {
                    let changed: Vec<String> = a
                        .keys()
                        .chain(b.keys())
                        .filter(|k| a.get(*k) != b.get(*k))
                        .cloned()
                        .collect::<BTreeSet<_>>()
                        .into_iter()
                        .collect();
                    let what = if a.len() != b.len() {
                        "entries"
                    } else if changed.iter().any(|k| a.get(k).map(|x| (&x.0, &x.1)) != b.get(k).map(|x| (&x.0, &x.1))) {
                        "content"
                    } else {
                        "timestamps"
                    };
                    acc.violate(Violation {
                        property: "C08",
                        signature: format!("lower-changed|{}|{}|{}|{}", op.name(), clsig, what, h.family),
                        summary: format!("after {} lower layer node {} differs ({}) at {:?}", op.render(), nid, what, changed),
                        detail: h.detail(step, J::arr(ev.iter().map(|e| J::s(e.render())))),
                        order: h.order(step),
                    });
                }
            }
            lower_state[i] = now;
        }
        acc.count("lower_deep_snapshots", lower_roots.len() as u64);

        // ---- C03 / C05 model-free monitors (only violations that are new in this state)
        let c3 = {
            let mut v = check_structure(&after);
            v.extend(check_dir_to_file(&snap, &after));
            v
        };
        report_rules(&h, "C03", step, Some(&op), Some(&clsig), &new_rule_violations(&prev_c03, &c3), acc);
        prev_c03 = rv_set(&c3);
        let c5 = check_consistency(&after);
        report_rules(&h, "C05", step, Some(&op), Some(&clsig), &new_rule_violations(&prev_c05, &c5), acc);
        prev_c05 = rv_set(&c5);
        acc.count("snapshots_checked", 1);

        // ---- C10 tombstones, fresh re-creation, hidden bookkeeping
        if let Some(plan) = &h.plan {
            update_tombstones(&mut tombstones, plan, &op, &res, &pre_tree, &after);
            let mut reported: Vec<String> = vec![];
            for t in &tombstones {
                if let Some(o) = after.obs.get(t) {
                    let visible = o.exists != Ok(false) || o.meta.is_ok() || o.read.is_ok() || o.list.is_ok();
                    let listed = after.obs.get(&parent_of(t)).and_then(|po| po.list.as_ref().ok()).map(|l| l.contains(t)).unwrap_or(false);
                    let walked = after.walk.as_ref().map(|w| w.iter().any(|x| x.as_ref().ok() == Some(t))).unwrap_or(false);
                    if visible || listed || walked {
                        reported.push(t.clone());
                        acc.violate(Violation {
                            property: "C10",
                            signature: format!("resurrected|by:{}|{}|rel:{}|{}", op.name(), clsig, relation(t, &op), h.family),
                            summary: format!("{:?} was removed through the overlay (lower-layer entry) and is visible again after {} (exists={:?} listed={} walked={})", t, op.render(), o.exists.as_ref().ok(), listed, walked),
                            detail: h.detail(step, J::s(format!("tombstones={:?}", tombstones))),
                            order: h.order(step),
                        });
                    }
                }
            }
            acc.count("tombstone_checks", tombstones.len() as u64);
            // a resurrected entry is reported once, at the step that made it visible again
            for r in reported {
                tombstones.remove(&r);
            }
            // fresh re-creation
            if res.is_ok() {
                match &op {
                    Op::CreateDir(p) => {
                        if let Some(o) = after.obs.get(p) {
                            if let Ok(l) = &o.list {
                                if !l.is_empty() && plan.lower_paths.iter().any(|lp| is_under(lp, p)) && !pre_tree.m.contains_key(p) {
                                    acc.violate(Violation {
                                        property: "C10",
                                        signature: format!("recreated-dir-not-empty|{}|{}", clsig, h.family),
                                        summary: format!("create_dir({:?}) on an absent path produced a directory that already lists {:?}", p, l),
                                        detail: h.detail(step, J::Null),
                                        order: h.order(step),
                                    });
                                }
                            }
                        }
                    }
                    Op::CreateFile(p, s) => {
                        let want = crate::model::interpret_wscript(&[], false, s);
                        if let Some(o) = after.obs.get(p) {
                            if let Ok(b) = &o.read {
                                if *b != want && plan.lower_paths.contains(p) {
                                    acc.violate(Violation {
                                        property: "C10",
                                        signature: format!("recreated-file-not-fresh|{}|{}", clsig, h.family),
                                        summary: format!("create_file({:?}) wrote {} but the file reads {}", p, crate::json::bytes_repr(&want), crate::json::bytes_repr(b)),
                                        detail: h.detail(step, J::Null),
                                        order: h.order(step),
                                    });
                                }
                            }
                        }
                    }
                    _ => {}
                }
            }
        }
        check_markers(&h, step, &after, acc);

        // ---- contract monitor (C01 / C09)
        if let Some(prop) = spec.contract {
            if contract_active {
                contract_step(&h, prop, step, &op, &clsig, &exp, &res, &mut model, &after, &mut prev_diffs, acc);
                prev_diffs = crate::snapshot::diff_model(&after, &model).into_iter().map(|d| (d.path, d.observer)).collect();
                if !model.well_formed() {
                    contract_active = false;
                    acc.count("histories_left_lockstep_after_illformed_state", 1);
                }
            }
        }
        snap = after;
        if tainted {
            acc.count("histories_ended_at_listed_finding_trigger", 1);
            break;
        }
        if panicked {
            acc.count("histories_ended_by_panic", 1);
            break;
        }
    }
    for (_, w) in held.drain(..) {
        let _ = crate::panicmon::guard(move || drop(w));
    }
    if idx < 3 || verbose {
        acc.sample(
            idx,
            J::obj()
                .set("history", J::i(idx))
                .set("config", J::s(cfg.desc()))
                .set("names", J::arr(universe.names.iter().map(J::s)))
                .set("layers", J::arr(h.plan.iter().flat_map(|p| p.render()).map(J::s)))
                .set("ops", J::arr(h.trace.iter().map(J::s))),
        );
    }
    acc.note("config_shapes", cfg.shape());
}

fn check_observer_events(h: &Hist, step: usize, what: &str, ev: &[Event], acc: &mut Acc) {
    for e in ev.iter().filter(|e| e.is_mutating()) {
        acc.violate(Violation {
            property: "C08",
            signature: format!("observer-mutates|{}|via:{}|{}", what, e.method, h.family),
            summary: format!("pure observer ({}) issued mutating call {}", what, e.render()),
            detail: h.detail(step, J::arr(ev.iter().take(60).map(|e| J::s(e.render())))),
            order: h.order(step),
        });
    }
}

fn check_markers(h: &Hist, step: usize, s: &Snap, acc: &mut Acc) {
    if !h.cfg.has_overlay() {
        return;
    }
    let mut names: Vec<String> = s.discovered.iter().cloned().collect();
    if let Ok(w) = &s.walk {
        names.extend(w.iter().filter_map(|x| x.as_ref().ok().cloned()));
    }
    for p in names {
        let n = crate::model::name_of(&p);
        if n == ".whiteout" || n.ends_with("_wo") {
            acc.violate(Violation {
                property: "C10",
                signature: format!("bookkeeping-visible|{}|{}", if n == ".whiteout" { ".whiteout" } else { "_wo" }, h.family),
                summary: format!("overlay bookkeeping entry {:?} appears in the overlay's own namespace", p),
                detail: h.detail(step, J::Null),
                order: h.order(step),
            });
        }
    }
}

fn update_tombstones(t: &mut BTreeSet<String>, plan: &Plan, op: &Op, res: &Res, pre: &Model, after: &Snap) {
    if res.is_err() && !op.is_composite() {
        return;
    }
    let removed_root: Option<&str> = match op {
        Op::RemoveFile(p) | Op::RemoveDir(p) | Op::RemoveDirAll(p) => Some(p),
        Op::MoveFile(s, _) | Op::MoveDir(s, _) => Some(s),
        _ => None,
    };
    if let Some(r) = removed_root {
        let gone = |p: &str| after.obs.get(p).map(|o| o.exists == Ok(false)).unwrap_or(true);
        let mut cands: BTreeSet<String> = BTreeSet::new();
        if pre.m.contains_key(r) {
            cands.insert(r.to_string());
        }
        for d in pre.descendants(r) {
            cands.insert(d);
        }
        for lp in &plan.lower_paths {
            if lp == r || is_under(lp, r) {
                cands.insert(lp.clone());
            }
        }
        // only entries that were visible before, are in a lower layer (or below a removed lower dir), and are gone now
        let lower_related = |p: &str| plan.lower_paths.contains(p) || plan.lower_paths.iter().any(|lp| is_under(p, lp));
        for c in cands {
            // a successful removal makes every lower-related entry of the removed subtree a tombstone at once: it must
            // be invisible right after the call (a failed composite only counts for what is observably gone)
            if pre.m.contains_key(&c) && lower_related(&c) && (res.is_ok() || gone(&c)) {
                t.insert(c);
            }
        }
    }
    // anything an operation (re-)creates stops being a tombstone
    let created: Vec<String> = match op {
        Op::CreateDir(p) | Op::CreateFile(p, _) => vec![p.clone()],
        // a kept-open create_file handle is a creation of its path (append handles are not: they need an existing file)
        Op::HoldOpen(p, false, _) => vec![p.clone()],
        Op::CreateDirAll(p) => {
            let mut v = crate::model::ancestors(p);
            v.push(p.clone());
            v
        }
        Op::CopyFile(_, d) | Op::MoveFile(_, d) => vec![d.clone()],
        Op::CopyDir(s, d) | Op::MoveDir(s, d) => {
            let mut v = vec![d.clone()];
            for k in pre.descendants(s) {
                v.push(format!("{}{}", d, &k[s.len()..]));
            }
            v
        }
        _ => vec![],
    };
    for c in created {
        // only when the creation is observable (failed composites may have created a prefix)
        if after.obs.get(&c).map(|o| o.exists == Ok(true)).unwrap_or(false) || res.is_ok() {
            t.remove(&c);
        }
    }
}

fn report_rules(h: &Hist, prop: &'static str, step: usize, op: Option<&Op>, clsig: Option<&str>, v: &[RuleViolation], acc: &mut Acc) {
    for r in v {
        let (opn, rel) = match op {
            Some(o) => (o.name(), relation(&r.path, o)),
            None => ("<initial>", "-"),
        };
        acc.violate(Violation {
            property: prop,
            signature: format!("{}|{}|{}|rel:{}|{}", r.rule, opn, clsig.unwrap_or("-"), rel, h.family),
            summary: format!("{} at {:?}: {} (after {})", r.rule, r.path, r.detail, op.map(|o| o.render()).unwrap_or_else(|| "set-up".into())),
            detail: h.detail(step, J::s(&r.detail)),
            order: h.order(step),
        });
    }
}

#[allow(clippy::too_many_arguments)]
fn contract_step(h: &Hist, prop: &'static str, step: usize, op: &Op, clsig: &str, exp: &Exp, res: &Res, model: &mut Model, after: &Snap, prev_diffs: &mut BTreeSet<(String, &'static str)>, acc: &mut Acc) {
    // only discrepancies that are new in this state are reported (a persistent one is reported where it first appears)
    let known_before = prev_diffs.clone();
    let diff_model = |s: &Snap, m: &Model| -> Vec<crate::snapshot::Diff> {
        crate::snapshot::diff_model(s, m).into_iter().filter(|d| !known_before.contains(&(d.path.clone(), d.observer))).collect()
    };
    let mut viol = |rule: &str, sig_tail: String, summary: String, what: J| {
        acc.violate(Violation {
            property: prop,
            signature: format!("{}|{}|{}|{}|{}", rule, op.name(), clsig, sig_tail, h.family),
            summary,
            detail: h.detail(step, what),
            order: h.order(step),
        });
    };
    let diff_sig = |d: &[crate::snapshot::Diff]| -> (String, J) {
        // canonical first diff: by relation rank then observer
        let rank = |r: &str| match r {
            "self" => 0,
            "dest" => 1,
            "child" | "dest-desc" | "descendant" => 2,
            "parent" | "ancestor" | "dest-ancestor" => 3,
            _ => 4,
        };
        let mut ds: Vec<&crate::snapshot::Diff> = d.iter().collect();
        ds.sort_by_key(|x| (rank(relation(&x.path, op)), x.observer, x.path.clone()));
        let f = ds[0];
        (
            format!("{}@{}:{}→{}", f.observer, relation(&f.path, op), gen_class(&f.expected), gen_class(&f.got)),
            J::arr(ds.iter().take(8).map(|x| J::s(format!("{:?} {}: expected {} got {}", x.path, x.observer, x.expected, x.got)))),
        )
    };
    match exp {
        Exp::Unspec => {
            *model = after.tree();
        }
        Exp::AnyNoEffect => {
            let d = diff_model(after, model);
            if !d.is_empty() {
                let (s, j) = diff_sig(&d);
                viol("setter-changed-tree", s, format!("{} ({}) changed the tree", op.render(), res_class(res)), j);
                *model = after.tree();
            }
        }
        Exp::Ok => match res {
            Ok(out) => {
                let expected_out = model.apply(op);
                if let Some(m) = compare_out(&expected_out, out, op.path()) {
                    viol("return-value", "differs".into(), format!("{} returned a wrong value: {}", op.render(), m), J::s(m.clone()));
                }
                let d = diff_model(after, model);
                if !d.is_empty() {
                    let (s, j) = diff_sig(&d);
                    viol("effect", s, format!("{} succeeded but the resulting tree is not the documented one", op.render()), j);
                    *model = after.tree();
                }
            }
            Err(e) => {
                viol("outcome", format!("Ok→Err({})", e.kind.name()), format!("{} must succeed (precondition holds) but failed: {}", op.render(), e.display), e.to_json());
                *model = after.tree();
            }
        },
        Exp::Err(kind) => match res {
            Ok(o) => {
                viol("outcome", "Err→Ok".into(), format!("{} must fail (precondition violated: target is {}) but returned Ok {}", op.render(), clsig, o.render()), J::Null);
                *model = after.tree();
            }
            Err(e) => {
                if e.kind == Kind::Panic {
                    *model = after.tree();
                    return;
                }
                if let Some(k) = kind {
                    if e.kind != *k {
                        viol("kind", format!("{}→{}", k.name(), e.kind.name()), format!("{} failed with {} where {} is documented: {}", op.render(), e.kind.name(), k.name(), e.display), e.to_json());
                    }
                }
                let d = diff_model(after, model);
                if !d.is_empty() {
                    let refusal_of_existing_dest = op.dest().map(|dst| model.m.contains_key(dst)).unwrap_or(false);
                    if !op.is_composite() || refusal_of_existing_dest {
                        let (s, j) = diff_sig(&d);
                        viol("failed-call-changed-tree", s, format!("{} failed ({}) yet changed the tree", op.render(), e.kind.name()), j);
                    } else {
                        let outside: Vec<&crate::snapshot::Diff> = d.iter().filter(|x| !x.path.is_empty() && !Model::failure_region(op, &x.path) && x.observer != "walk_dir").collect();
                        // a parent's listing legitimately changes when a child inside the region changed
                        let outside: Vec<&&crate::snapshot::Diff> = outside
                            .iter()
                            .filter(|x| !(x.observer == "read_dir" && d.iter().any(|y| parent_of(&y.path) == x.path && Model::failure_region(op, &y.path))))
                            .collect();
                        if !outside.is_empty() {
                            let owned: Vec<crate::snapshot::Diff> = outside.iter().map(|x| (**x).clone()).collect();
                            let (s, j) = diff_sig(&owned);
                            viol("failed-composite-touched-unrelated", s, format!("{} failed ({}) and changed entries it does not name", op.render(), e.kind.name()), j);
                        }
                    }
                    *model = after.tree();
                }
            }
        },
    }
}

/// Runs all histories of a spec on `workers` threads and merges the per-thread accumulators.
pub fn run(spec: &Spec) -> Acc {
    let next = AtomicU64::new(0);
    let total = Mutex::new(Acc::new());
    let (lo, hi) = match spec.only {
        Some(i) => (i, i + 1),
        None => (0, spec.histories),
    };
    next.store(lo, Ordering::SeqCst);
    std::thread::scope(|s| {
        for _ in 0..spec.workers.max(1) {
            s.spawn(|| {
                let mut acc = Acc::new();
                loop {
                    let i = next.fetch_add(1, Ordering::SeqCst);
                    if i >= hi {
                        break;
                    }
                    run_history(spec, i, &mut acc);
                }
                total.lock().unwrap().merge(acc);
            });
        }
    });
    total.into_inner().unwrap()
}

#[allow(dead_code)]
pub fn class_exists(c: Class) -> bool {
    c.exists()
}
#[allow(dead_code)]
fn _unused(_: &ErrInfo, _: &Node) {}
