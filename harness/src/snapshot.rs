//! Full observable snapshot of a filesystem through the public path API (DESIGN §2.3),
//! plus the model-free monitors evaluated on it: cross-observer consistency (C05) and
//! structural well-formedness (C03), and the model comparison used by C01/C09/C10.

use crate::model::{is_under, name_of, parent_of, Model, Node};
use crate::ops::{at, ErrInfo, Kind};
use crate::panicmon::guard;
use std::collections::{BTreeMap, BTreeSet};
use std::io::Read;
use std::time::SystemTime;
use vfs::{VfsFileType, VfsPath};

#[derive(Clone, Debug, PartialEq, Eq)]
pub struct MetaObs {
    pub dir: bool,
    pub len: u64,
    pub created: Option<SystemTime>,
    pub modified: Option<SystemTime>,
    pub accessed: Option<SystemTime>,
}

#[derive(Clone, Debug)]
pub struct PathObs {
    pub exists: Result<bool, ErrInfo>,
    pub meta: Result<MetaObs, ErrInfo>,
    pub is_file: Result<bool, ErrInfo>,
    pub is_dir: Result<bool, ErrInfo>,
    /// children as full path strings, in the order produced
    pub list: Result<Vec<String>, ErrInfo>,
    pub read: Result<Vec<u8>, ErrInfo>,
}

#[derive(Clone, Debug)]
pub struct Snap {
    pub obs: BTreeMap<String, PathObs>,
    pub walk: Result<Vec<Result<String, ErrInfo>>, ErrInfo>,
    /// paths found through listings that are not part of the probe set given by the caller
    pub discovered: BTreeSet<String>,
    /// every error any observer returned: (method, call path, error)
    pub errors: Vec<(&'static str, String, ErrInfo)>,
    pub calls: u64,
}

fn g<T>(f: impl FnOnce() -> Result<T, vfs::VfsError>) -> Result<T, ErrInfo> {
    match guard(f) {
        Ok(Ok(v)) => Ok(v),
        Ok(Err(e)) => Err(ErrInfo::from_vfs(&e)),
        Err(p) => Err(ErrInfo::from_panic(p)),
    }
}

pub fn read_all(path: &VfsPath, buf: usize) -> Result<Vec<u8>, ErrInfo> {
    match guard(|| -> Result<Result<Vec<u8>, ErrInfo>, vfs::VfsError> {
        let mut r = path.open_file()?;
        let mut out = vec![];
        let mut b = vec![0u8; buf.max(1)];
        loop {
            match r.read(&mut b) {
                Ok(0) => break,
                Ok(n) => {
                    if n > b.len() {
                        return Ok(Err(ErrInfo {
                            kind: Kind::Other,
                            path: "<handle>".into(),
                            display: "read returned more than buffer".into(),
                            panic: None,
                        }));
                    }
                    out.extend_from_slice(&b[..n]);
                    if out.len() > 64 << 20 {
                        return Ok(Err(ErrInfo {
                            kind: Kind::Other,
                            path: "<handle>".into(),
                            display: "reader never reports EOF".into(),
                            panic: None,
                        }));
                    }
                }
                Err(e) => return Ok(Err(ErrInfo::from_io(&e))),
            }
        }
        Ok(Ok(out))
    }) {
        Ok(Ok(r)) => r,
        Ok(Err(e)) => Err(ErrInfo::from_vfs(&e)),
        Err(p) => Err(ErrInfo::from_panic(p)),
    }
}

fn observe(root: &VfsPath, p: &str, buf: usize, errors: &mut Vec<(&'static str, String, ErrInfo)>, calls: &mut u64) -> PathObs {
    let path = at(root, p);
    let exists = g(|| path.exists());
    let meta = g(|| path.metadata()).map(|m| MetaObs {
        dir: m.file_type == VfsFileType::Directory,
        len: m.len,
        created: m.created,
        modified: m.modified,
        accessed: m.accessed,
    });
    let is_file = g(|| path.is_file());
    let is_dir = g(|| path.is_dir());
    let list = g(|| path.read_dir().map(|it| it.map(|c| c.as_str().to_string()).collect::<Vec<_>>()));
    let read = read_all(&path, buf);
    *calls += 6;
    for (m, r) in [
        ("exists", exists.as_ref().err()),
        ("metadata", meta.as_ref().err()),
        ("is_file", is_file.as_ref().err()),
        ("is_dir", is_dir.as_ref().err()),
        ("read_dir", list.as_ref().err()),
        ("open_file", read.as_ref().err()),
    ] {
        if let Some(e) = r {
            errors.push((m, p.to_string(), e.clone()));
        }
    }
    PathObs { exists, meta, is_file, is_dir, list, read }
}

pub fn walk(root: &VfsPath, p: &str) -> Result<Vec<Result<String, ErrInfo>>, ErrInfo> {
    let path = at(root, p);
    match guard(|| -> Result<Vec<Result<String, ErrInfo>>, vfs::VfsError> {
        let it = path.walk_dir()?;
        let mut v = vec![];
        for item in it {
            v.push(match item {
                Ok(x) => Ok(x.as_str().to_string()),
                Err(e) => Err(ErrInfo::from_vfs(&e)),
            });
            if v.len() > 5000 {
                v.push(Err(ErrInfo { kind: Kind::Other, path: "<harness>".into(), display: "walk_dir does not terminate".into(), panic: None }));
                break;
            }
        }
        Ok(v)
    }) {
        Ok(Ok(v)) => Ok(v),
        Ok(Err(e)) => Err(ErrInfo::from_vfs(&e)),
        Err(p) => Err(ErrInfo::from_panic(p)),
    }
}

/// Takes a snapshot probing every path in `probe` (the root is always probed) and everything listings discover.
pub fn snapshot(root: &VfsPath, probe: &[String], read_buf: usize) -> Snap {
    let mut obs = BTreeMap::new();
    let mut errors = vec![];
    let mut calls = 0u64;
    let mut todo: Vec<String> = vec![String::new()];
    todo.extend(probe.iter().cloned());
    let probe_set: BTreeSet<&String> = probe.iter().collect();
    let mut discovered = BTreeSet::new();
    let mut extra_budget = 300usize;
    while let Some(p) = todo.pop() {
        if obs.contains_key(&p) {
            continue;
        }
        let o = observe(root, &p, read_buf, &mut errors, &mut calls);
        if let Ok(children) = &o.list {
            for c in children {
                if !obs.contains_key(c) && !c.is_empty() && !probe_set.contains(c) && extra_budget > 0 {
                    // only follow well-formed absolute child strings; malformed ones are reported by the rules
                    if c.starts_with('/') && !c.ends_with('/') && !c.contains("//") {
                        if discovered.insert(c.clone()) {
                            extra_budget -= 1;
                            todo.push(c.clone());
                        }
                    }
                }
            }
        }
        obs.insert(p, o);
    }
    let w = walk(root, "");
    calls += 1;
    if let Err(e) = &w {
        errors.push(("walk_dir", String::new(), e.clone()));
    }
    if let Ok(items) = &w {
        for it in items {
            if let Err(e) = it {
                errors.push(("walk_dir_item", String::new(), e.clone()));
            }
        }
    }
    Snap { obs, walk: w, discovered, errors, calls }
}

impl Snap {
    /// Projection to the model type: present iff `exists == Ok(true)`.
    pub fn tree(&self) -> Model {
        let mut m = Model { m: BTreeMap::new() };
        for (p, o) in &self.obs {
            if o.exists == Ok(true) {
                let node = match &o.meta {
                    Ok(mo) if !mo.dir => Node::File(o.read.clone().unwrap_or_default()),
                    Ok(_) => Node::Dir,
                    Err(_) => match &o.read {
                        Ok(b) => Node::File(b.clone()),
                        Err(_) => Node::Dir,
                    },
                };
                m.m.insert(p.clone(), node);
            }
        }
        m
    }
    pub fn panics(&self) -> Vec<(&'static str, String, ErrInfo)> {
        self.errors.iter().filter(|e| e.2.kind == Kind::Panic).cloned().collect()
    }
    /// Stable fingerprint of the observable state (for counting distinct states)
    pub fn fingerprint(&self) -> u64 {
        let mut h: u64 = 0xcbf29ce484222325;
        let mut feed = |s: &[u8]| {
            for b in s {
                h ^= *b as u64;
                h = h.wrapping_mul(0x100000001b3);
            }
            h ^= 0xff;
            h = h.wrapping_mul(0x100000001b3);
        };
        for (p, o) in &self.obs {
            if o.exists == Ok(true) {
                feed(p.as_bytes());
                match &o.meta {
                    Ok(m) => feed(if m.dir { b"D" } else { b"F" }),
                    Err(_) => feed(b"?"),
                }
                if let Ok(b) = &o.read {
                    feed(b);
                }
            }
        }
        h
    }
}

#[derive(Clone, Debug)]
pub struct RuleViolation {
    pub rule: &'static str,
    pub path: String,
    pub detail: String,
}

fn rv(rule: &'static str, path: &str, detail: String) -> RuleViolation {
    RuleViolation { rule, path: path.to_string(), detail }
}

fn show<T: std::fmt::Debug, E: std::borrow::Borrow<ErrInfo>>(r: &Result<T, E>) -> String {
    match r {
        Ok(v) => {
            let s = format!("Ok({:?})", v);
            if s.len() > 80 {
                format!("{}..", &s[..s.char_indices().take(80).last().map(|x| x.0).unwrap_or(0)])
            } else {
                s
            }
        }
        Err(e) => format!("Err({})", e.borrow().kind.name()),
    }
}

/// C05: the observers tell one consistent story (model-free).
pub fn check_consistency(s: &Snap) -> Vec<RuleViolation> {
    let mut v = vec![];
    for (p, o) in &s.obs {
        let ex = match &o.exists {
            Ok(b) => *b,
            Err(e) => {
                v.push(rv("exists-err", p, format!("exists() failed: {}", e.display)));
                continue;
            }
        };
        if ex != o.meta.is_ok() {
            v.push(rv("exists-vs-metadata", p, format!("exists={} metadata={}", ex, show(&o.meta))));
        }
        let (mfile, mdir) = match &o.meta {
            Ok(m) => (!m.dir, m.dir),
            Err(_) => (false, false),
        };
        match &o.is_file {
            Ok(b) if *b == (ex && mfile) => {}
            other => v.push(rv("is_file-vs-metadata", p, format!("is_file={} exists={} metadata={}", show(other), ex, show(&o.meta)))),
        }
        match &o.is_dir {
            Ok(b) if *b == (ex && mdir) => {}
            other => v.push(rv("is_dir-vs-metadata", p, format!("is_dir={} exists={} metadata={}", show(other), ex, show(&o.meta)))),
        }
        if (ex && mdir) != o.list.is_ok() {
            v.push(rv("is_dir-vs-read_dir", p, format!("is_dir={} read_dir={}", ex && mdir, show(&o.list))));
        }
        if (ex && mfile) != o.read.is_ok() {
            v.push(rv("is_file-vs-open_read", p, format!("is_file={} open+read={}", ex && mfile, show(&o.read.as_ref().map(|b| b.len())))));
        }
        if let (Ok(m), Ok(b)) = (&o.meta, &o.read) {
            if !m.dir && m.len != b.len() as u64 {
                v.push(rv("len-vs-bytes", p, format!("metadata.len={} bytes read={}", m.len, b.len())));
            }
        }
        if let Ok(children) = &o.list {
            let mut seen = BTreeSet::new();
            for c in children {
                let prefix = format!("{}/", p);
                let bare_ok = c.starts_with(&prefix) && !c[prefix.len()..].is_empty() && !c[prefix.len()..].contains('/');
                if !bare_ok {
                    v.push(rv("listed-name-not-bare-child", p, format!("read_dir({:?}) yielded {:?}", p, c)));
                }
                if !seen.insert(c.clone()) {
                    v.push(rv("listed-twice", p, format!("read_dir({:?}) yielded {:?} more than once", p, c)));
                }
                // a listed child must exist
                if let Some(co) = s.obs.get(c) {
                    if co.exists == Ok(false) {
                        v.push(rv("listed-but-absent", c, format!("parent {:?} lists it, exists()=false", p)));
                    }
                }
            }
        }
        if !p.is_empty() && ex {
            let par = parent_of(p);
            if let Some(po) = s.obs.get(&par) {
                match &po.list {
                    Ok(children) => {
                        let n = children.iter().filter(|c| *c == p).count();
                        if n == 0 {
                            v.push(rv("exists-but-not-listed", p, format!("exists()=true but read_dir({:?}) does not list it", par)));
                        }
                    }
                    Err(e) => v.push(rv("exists-but-parent-unlistable", p, format!("exists()=true but read_dir({:?}) = Err({})", par, e.kind.name()))),
                }
            }
        }
    }
    // walk_dir from the root: every existing non-root path exactly once, directories before their content
    match &s.walk {
        Err(e) => v.push(rv("walk-root-err", "", format!("walk_dir(root) failed: {}", e.display))),
        Ok(items) => {
            let mut seen: BTreeSet<&str> = BTreeSet::new();
            for it in items {
                match it {
                    Err(e) => v.push(rv("walk-item-err", &e.path, format!("walk_dir yielded Err({}) in a quiescent state: {}", e.kind.name(), e.display))),
                    Ok(p) => {
                        if !seen.insert(p.as_str()) {
                            v.push(rv("walk-twice", p, "yielded more than once".into()));
                        }
                        let par = parent_of(p);
                        if !par.is_empty() && !seen.contains(par.as_str()) {
                            v.push(rv("walk-child-before-parent", p, format!("yielded before its directory {:?}", par)));
                        }
                        if let Some(o) = s.obs.get(p) {
                            if o.exists == Ok(false) {
                                v.push(rv("walk-yields-absent", p, "walk_dir yields a path whose exists() is false".into()));
                            }
                        }
                    }
                }
            }
            for (p, o) in &s.obs {
                if !p.is_empty() && o.exists == Ok(true) && !seen.contains(p.as_str()) {
                    v.push(rv("walk-misses", p, "exists()=true but walk_dir(root) never yields it".into()));
                }
            }
        }
    }
    v
}

/// C03: root is a directory; every existing entry has an existing directory parent; reachable from the root.
pub fn check_structure(s: &Snap) -> Vec<RuleViolation> {
    let mut v = vec![];
    let exists = |p: &str| s.obs.get(p).map(|o| o.exists == Ok(true)).unwrap_or(false);
    let is_dir = |p: &str| s.obs.get(p).map(|o| matches!(&o.meta, Ok(m) if m.dir)).unwrap_or(false);
    if !exists("") || !is_dir("") {
        v.push(rv("root-not-a-directory", "", format!("exists={} is_dir={}", exists(""), is_dir(""))));
    }
    // reachability through listings from the root
    let mut reach: BTreeSet<String> = BTreeSet::new();
    let mut todo = vec![String::new()];
    while let Some(p) = todo.pop() {
        if !reach.insert(p.clone()) {
            continue;
        }
        if let Some(o) = s.obs.get(&p) {
            if let Ok(ch) = &o.list {
                for c in ch {
                    todo.push(c.clone());
                }
            }
        }
    }
    for (p, o) in &s.obs {
        if p.is_empty() || o.exists != Ok(true) {
            continue;
        }
        let par = parent_of(p);
        if !exists(&par) {
            v.push(rv("orphan-parent-missing", p, format!("exists but parent {:?} does not", par)));
        } else if !is_dir(&par) {
            v.push(rv("orphan-parent-is-file", p, format!("exists but parent {:?} is not a directory", par)));
        } else if !reach.contains(p) {
            v.push(rv("unreachable-from-root", p, "exists with a directory parent, yet no chain of listings from the root reaches it".into()));
        }
    }
    v
}

/// C03: a path that was a non-empty directory before the step must not be a file afterwards.
pub fn check_dir_to_file(before: &Snap, after: &Snap) -> Vec<RuleViolation> {
    let mut v = vec![];
    for (p, o) in &before.obs {
        let was_nonempty_dir = matches!(&o.meta, Ok(m) if m.dir) && matches!(&o.list, Ok(l) if !l.is_empty());
        if was_nonempty_dir {
            if let Some(a) = after.obs.get(p) {
                if matches!(&a.meta, Ok(m) if !m.dir) {
                    v.push(rv("nonempty-dir-became-file", p, "was a non-empty directory before the call, is a file after it".into()));
                }
            }
        }
    }
    v
}

#[derive(Clone, Debug)]
pub struct Diff {
    pub path: String,
    pub observer: &'static str,
    pub expected: String,
    pub got: String,
}

/// C01/C09: every observer on every probed/discovered path must agree with the model.
pub fn diff_model(s: &Snap, m: &Model) -> Vec<Diff> {
    let mut d = vec![];
    let mut paths: BTreeSet<&String> = s.obs.keys().collect();
    for k in m.m.keys() {
        paths.insert(k);
    }
    for p in paths {
        let node = m.m.get(p.as_str());
        let o = match s.obs.get(p.as_str()) {
            Some(o) => o,
            None => {
                d.push(Diff { path: p.clone(), observer: "probe", expected: "probed".into(), got: "model entry never observed".into() });
                continue;
            }
        };
        let mut push = |observer: &'static str, expected: String, got: String| d.push(Diff { path: p.clone(), observer, expected, got });
        match node {
            None => {
                if o.exists != Ok(false) {
                    push("exists", "false".into(), show(&o.exists));
                }
                if o.meta.is_ok() {
                    push("metadata", "Err".into(), show(&o.meta.as_ref().map(|m| (m.dir, m.len))));
                }
                if o.list.is_ok() {
                    push("read_dir", "Err".into(), show(&o.list));
                }
                if o.read.is_ok() {
                    push("open_read", "Err".into(), show(&o.read.as_ref().map(|b| b.len())));
                }
            }
            Some(Node::Dir) => {
                if o.exists != Ok(true) {
                    push("exists", "true".into(), show(&o.exists));
                }
                match &o.meta {
                    Ok(mo) if mo.dir && mo.len == 0 => {}
                    other => push("metadata", "dir,len=0".into(), show(&other.as_ref().map(|m| (m.dir, m.len)))),
                }
                let mut want: Vec<String> = m.children(p).into_iter().map(|n| format!("{}/{}", p, n)).collect();
                want.sort();
                match &o.list {
                    Ok(l) => {
                        let mut got = l.clone();
                        got.sort();
                        if got != want {
                            push("read_dir", format!("{:?}", want), format!("{:?}", got));
                        }
                    }
                    Err(e) => push("read_dir", format!("{:?}", want), format!("Err({})", e.kind.name())),
                }
                if o.read.is_ok() {
                    push("open_read", "Err".into(), show(&o.read.as_ref().map(|b| b.len())));
                }
            }
            Some(Node::File(b)) => {
                if o.exists != Ok(true) {
                    push("exists", "true".into(), show(&o.exists));
                }
                match &o.meta {
                    Ok(mo) if !mo.dir && mo.len == b.len() as u64 => {}
                    other => push("metadata", format!("file,len={}", b.len()), show(&other.as_ref().map(|m| (m.dir, m.len)))),
                }
                if o.list.is_ok() {
                    push("read_dir", "Err".into(), show(&o.list));
                }
                match &o.read {
                    Ok(got) if got == b => {}
                    Ok(got) => push("open_read", crate::json::bytes_repr(b), crate::json::bytes_repr(got)),
                    Err(e) => push("open_read", crate::json::bytes_repr(b), format!("Err({})", e.kind.name())),
                }
            }
        }
    }
    // walk from root = all model entries except the root
    let want: BTreeSet<String> = m.m.keys().filter(|k| !k.is_empty()).cloned().collect();
    match &s.walk {
        Ok(items) => {
            let got: BTreeSet<String> = items.iter().filter_map(|x| x.as_ref().ok().cloned()).collect();
            if got != want {
                let missing: Vec<&String> = want.difference(&got).collect();
                let extra: Vec<&String> = got.difference(&want).collect();
                d.push(Diff { path: String::new(), observer: "walk_dir", expected: format!("missing {:?}", missing), got: format!("extra {:?}", extra) });
            }
        }
        Err(e) => d.push(Diff { path: String::new(), observer: "walk_dir", expected: "Ok".into(), got: format!("Err({})", e.kind.name()) }),
    }
    d
}

/// helper for monitors that need "is p inside subtree t"
pub fn in_subtree(p: &str, t: &str) -> bool {
    p == t || is_under(p, t)
}

pub fn child_name(p: &str) -> &str {
    name_of(p)
}

/// Differential comparison of two snapshots of filesystems that ran the same script (C02, C15, C18).
/// `with_types`: compare observer outcomes path by path; names of the two sides appear in the diff text.
pub fn diff_snaps(a: &Snap, b: &Snap) -> Vec<Diff> {
    let mut d = vec![];
    let mut paths: BTreeSet<&String> = a.obs.keys().collect();
    paths.extend(b.obs.keys());
    fn cls<T>(r: &Result<T, ErrInfo>) -> &'static str {
        if r.is_ok() {
            "Ok"
        } else {
            "Err"
        }
    }
    for p in paths {
        let (oa, ob) = match (a.obs.get(p.as_str()), b.obs.get(p.as_str())) {
            (Some(x), Some(y)) => (x, y),
            (x, _) => {
                d.push(Diff { path: p.clone(), observer: "discovered", expected: if x.is_some() { "probed" } else { "-" }.into(), got: if x.is_some() { "-" } else { "probed" }.into() });
                continue;
            }
        };
        let mut push = |observer: &'static str, expected: String, got: String| d.push(Diff { path: p.clone(), observer, expected, got });
        if oa.exists.as_ref().ok() != ob.exists.as_ref().ok() {
            push("exists", show(&oa.exists), show(&ob.exists));
        }
        match (&oa.meta, &ob.meta) {
            (Ok(x), Ok(y)) => {
                if (x.dir, x.len) != (y.dir, y.len) {
                    push("metadata", format!("{:?}", (x.dir, x.len)), format!("{:?}", (y.dir, y.len)));
                }
            }
            (x, y) => {
                if x.is_ok() != y.is_ok() {
                    push("metadata", cls(x).into(), cls(y).into());
                }
            }
        }
        match (&oa.list, &ob.list) {
            (Ok(x), Ok(y)) => {
                let mut x = x.clone();
                let mut y = y.clone();
                x.sort();
                y.sort();
                if x != y {
                    push("read_dir", format!("{:?}", x), format!("{:?}", y));
                }
            }
            (x, y) => {
                if x.is_ok() != y.is_ok() {
                    push("read_dir", cls(x).into(), cls(y).into());
                }
            }
        }
        match (&oa.read, &ob.read) {
            (Ok(x), Ok(y)) => {
                if x != y {
                    push("open_read", crate::json::bytes_repr(x), crate::json::bytes_repr(y));
                }
            }
            (x, y) => {
                if x.is_ok() != y.is_ok() {
                    push("open_read", cls(x).into(), cls(y).into());
                }
            }
        }
        if oa.is_file.as_ref().ok() != ob.is_file.as_ref().ok() {
            push("is_file", show(&oa.is_file), show(&ob.is_file));
        }
        if oa.is_dir.as_ref().ok() != ob.is_dir.as_ref().ok() {
            push("is_dir", show(&oa.is_dir), show(&ob.is_dir));
        }
    }
    let ws = |s: &Snap| -> Result<BTreeSet<String>, ()> {
        match &s.walk {
            Ok(items) => {
                if items.iter().any(|x| x.is_err()) {
                    Err(())
                } else {
                    Ok(items.iter().filter_map(|x| x.as_ref().ok().cloned()).collect())
                }
            }
            Err(_) => Err(()),
        }
    };
    let (wa, wb) = (ws(a), ws(b));
    if wa != wb {
        d.push(Diff { path: String::new(), observer: "walk_dir", expected: format!("{:?}", wa), got: format!("{:?}", wb) });
    }
    d
}
