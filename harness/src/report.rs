//! Per-run accumulation of violations (deduplicated by signature), coverage cells, distinct-case
//! fingerprints and samples; serialised to the result file the driver turns into evidence + verdict lines.

use crate::json::J;
use std::collections::{BTreeMap, BTreeSet};

#[derive(Clone, Debug)]
pub struct Violation {
    pub property: &'static str,
    pub signature: String,
    pub summary: String,
    /// everything needed to understand / re-run: config, history index, ops, expected vs observed
    pub detail: J,
    /// ordering key so that the reported example is deterministic (smallest wins)
    pub order: u64,
}

#[derive(Default)]
pub struct Acc {
    pub evaluations: u64,
    pub steps: u64,
    pub fingerprints: BTreeSet<u64>,
    pub cells: BTreeMap<String, u64>,
    pub counters: BTreeMap<String, u64>,
    pub samples: Vec<(u64, J)>,
    pub violations: BTreeMap<(&'static str, String), (Violation, u64)>,
    pub inconclusive: Vec<String>,
    pub sets: BTreeMap<String, BTreeSet<String>>,
}

impl Acc {
    pub fn new() -> Acc {
        Acc::default()
    }
    pub fn cell(&mut self, k: impl Into<String>) {
        *self.cells.entry(k.into()).or_insert(0) += 1;
    }
    pub fn count(&mut self, k: &str, n: u64) {
        *self.counters.entry(k.to_string()).or_insert(0) += n;
    }
    pub fn note(&mut self, set: &str, item: impl Into<String>) {
        self.sets.entry(set.to_string()).or_default().insert(item.into());
    }
    pub fn violate(&mut self, v: Violation) {
        let key = (v.property, v.signature.clone());
        match self.violations.get_mut(&key) {
            Some((old, n)) => {
                *n += 1;
                if v.order < old.order {
                    *old = v;
                }
            }
            None => {
                self.violations.insert(key, (v, 1));
            }
        }
    }
    pub fn sample(&mut self, order: u64, j: J) {
        if self.samples.len() < 6 {
            self.samples.push((order, j));
        }
    }
    pub fn merge(&mut self, o: Acc) {
        self.evaluations += o.evaluations;
        self.steps += o.steps;
        self.fingerprints.extend(o.fingerprints);
        for (k, v) in o.cells {
            *self.cells.entry(k).or_insert(0) += v;
        }
        for (k, v) in o.counters {
            *self.counters.entry(k).or_insert(0) += v;
        }
        for (k, v) in o.sets {
            self.sets.entry(k).or_default().extend(v);
        }
        self.samples.extend(o.samples);
        self.samples.sort_by_key(|x| x.0);
        self.samples.truncate(6);
        for (k, (v, n)) in o.violations {
            match self.violations.get_mut(&k) {
                Some((old, m)) => {
                    *m += n;
                    if v.order < old.order {
                        *old = v;
                    }
                }
                None => {
                    self.violations.insert(k, (v, n));
                }
            }
        }
        self.inconclusive.extend(o.inconclusive);
    }
}

pub struct RunMeta {
    pub property: String,
    pub tier: String,
    pub seed: u64,
    pub rule: String,
    pub level: &'static str,
    pub assumptions: Vec<String>,
    pub wall_s: f64,
    pub exhaustive: Option<bool>,
}

pub fn result_json(meta: &RunMeta, acc: &Acc) -> J {
    let mut viols = vec![];
    let mut other: BTreeMap<String, u64> = BTreeMap::new();
    for ((prop, sig), (v, n)) in &acc.violations {
        if *prop == meta.property || std::env::var("VFS_VERIF_ALL_PROPS").is_ok() {
            viols.push(
                J::obj()
                    .set("property", J::s(*prop))
                    .set("signature", J::s(sig))
                    .set("summary", J::s(&v.summary))
                    .set("count", J::i(*n))
                    .set("detail", v.detail.clone()),
            );
        } else {
            *other.entry(prop.to_string()).or_insert(0) += n;
        }
    }
    let mut coverage = J::obj()
        .set("evaluations", J::i(acc.evaluations))
        .set("distinct_nontrivial", J::i(acc.fingerprints.len() as u64))
        .set("rule", J::s(&meta.rule))
        .set("samples", J::arr(acc.samples.iter().map(|x| x.1.clone())))
        .set("steps", J::i(acc.steps))
        .set("cells_nonempty", J::i(acc.cells.len() as u64))
        .set("cells", J::from_counts(&acc.cells))
        .set("counters", J::from_counts(&acc.counters));
    for (k, s) in &acc.sets {
        coverage.put(
            &format!("distinct_{}", k),
            J::obj().set("count", J::i(s.len() as u64)).set("first", J::arr(s.iter().take(40).map(J::s))),
        );
    }
    if let Some(e) = meta.exhaustive {
        coverage.put("exhaustive", J::Bool(e));
    }
    coverage.put("observations_of_other_properties_not_reported_here", J::from_counts(&other));
    J::obj()
        .set("property_id", J::s(&meta.property))
        .set("tier", J::s(&meta.tier))
        .set("seed", J::i(meta.seed))
        .set("level", J::s(meta.level))
        .set("coverage", coverage)
        .set("assumptions", J::arr(meta.assumptions.iter().map(J::s)))
        .set("wall_s", J::Float(meta.wall_s))
        .set("violation_records", J::Arr(viols))
        .set("inconclusive", J::arr(acc.inconclusive.iter().map(J::s)))
}
