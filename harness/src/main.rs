//! vfs-verif: runtime-monitoring harness for rust-vfs (see /verif/DESIGN.md).
//! Usage: vfs-verif <property> <quick|thorough> --seed N --out FILE [--findings FILE] [--only IDX --tag TAG] [--scale F]
//! The binary never prints verdicts on stdout (the library itself prints there); the driver does.

mod asyncside;
mod cfg;
mod engine;
mod errmon;
mod gen;
mod json;
mod model;
mod monfs;
mod ops;
mod panicmon;
mod prepop;
mod props;
mod report;
mod rng;
mod sched;
mod snapshot;

use std::collections::BTreeSet;

pub struct Args {
    pub property: String,
    pub tier: String,
    pub seed: u64,
    pub out: String,
    pub only: Option<u64>,
    pub tag: Option<String>,
    pub scale: f64,
    pub workers: usize,
    /// steering keys per property from the known-findings file
    pub avoid: BTreeSet<String>,
}

impl Args {
    pub fn n(&self, quick: u64, thorough: u64) -> u64 {
        let base = if self.tier == "thorough" { thorough } else { quick };
        ((base as f64 * self.scale).ceil() as u64).max(1)
    }
}

fn main() {
    let argv: Vec<String> = std::env::args().collect();
    if argv.len() < 3 {
        eprintln!("usage: vfs-verif <property> <quick|thorough> --seed N --out FILE [--avoid k1,k2] [--only IDX --tag TAG] [--scale F] [--workers N]");
        std::process::exit(2);
    }
    let mut a = Args {
        property: argv[1].clone(),
        tier: argv[2].clone(),
        seed: 1,
        out: String::new(),
        only: None,
        tag: None,
        scale: 1.0,
        workers: std::thread::available_parallelism().map(|n| n.get()).unwrap_or(8).min(16),
        avoid: BTreeSet::new(),
    };
    let mut i = 3;
    while i < argv.len() {
        let v = argv.get(i + 1).cloned().unwrap_or_default();
        match argv[i].as_str() {
            "--seed" => a.seed = v.parse().unwrap_or(1),
            "--out" => a.out = v,
            "--only" => a.only = v.parse().ok(),
            "--tag" => a.tag = Some(v),
            "--scale" => a.scale = v.parse().unwrap_or(1.0),
            "--workers" => a.workers = v.parse().unwrap_or(8),
            "--avoid" => a.avoid = v.split(',').filter(|s| !s.is_empty()).map(|s| s.to_string()).collect(),
            other => {
                eprintln!("unknown argument {}", other);
                std::process::exit(2);
            }
        }
        i += 2;
    }
    panicmon::install();
    let limit_s = std::env::var("VERIF_CALL_TIMEOUT_S").ok().and_then(|v| v.parse().ok()).unwrap_or(90);
    let rss_mb = std::env::var("VERIF_RSS_LIMIT_MB").ok().and_then(|v| v.parse().ok()).unwrap_or(16_000);
    panicmon::start_watchdog(if a.out.is_empty() { "/verif/.scratch/noout".into() } else { a.out.clone() }, limit_s, rss_mb);
    let t0 = std::time::Instant::now();
    let run = props::dispatch(&a);
    cfg::cleanup_scratch_base();
    let (acc, mut meta) = match run {
        Some(x) => x,
        None => {
            eprintln!("unknown property {}", a.property);
            std::process::exit(2);
        }
    };
    meta.wall_s = t0.elapsed().as_secs_f64();
    let j = report::result_json(&meta, &acc);
    if a.out.is_empty() {
        eprintln!("{}", j.to_string());
    } else {
        std::fs::write(&a.out, j.to_string()).expect("write result file");
    }
}
