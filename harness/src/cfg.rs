//! Backend configuration descriptors and builder (DESIGN §2.1): Mem | Phys | Alt(cfg, P) | Ovl([cfg@base ..]).
//! Every filesystem in the stack is wrapped in a `MonFs` so monitors can see (and fail) the calls crossing
//! each boundary.

use crate::monfs::{MonCtl, MonFs};
use crate::ops::at;
use crate::rng::Rng;
use std::path::PathBuf;
use std::sync::atomic::{AtomicU64, Ordering};
use std::sync::Arc;
use vfs::{AltrootFS, MemoryFS, OverlayFS, PhysicalFS, VfsPath};

#[derive(Clone, Debug, PartialEq, Eq)]
pub enum Cfg {
    Mem,
    Phys,
    /// altroot at inner path P (canonical, "" = the underlying root)
    Alt(Box<Cfg>, String),
    /// layers, each with the inner base path it is mounted from ("" = that filesystem's root)
    Ovl(Vec<(Cfg, String)>),
    /// n layers that are sub-directories /__lay0 .. /__lay{n-1} of ONE shared filesystem instance
    OvlShared(Box<Cfg>, usize),
}

impl Cfg {
    pub fn desc(&self) -> String {
        match self {
            Cfg::Mem => "Mem".into(),
            Cfg::Phys => "Phys".into(),
            Cfg::Alt(c, p) => format!("Alt({}@{:?})", c.desc(), p),
            Cfg::Ovl(ls) => format!("Ovl[{}]", ls.iter().map(|(c, b)| format!("{}@{:?}", c.desc(), b)).collect::<Vec<_>>().join(",")),
            Cfg::OvlShared(c, n) => format!("OvlShared[{} sub-directories /__layK of one {}]", n, c.desc()),
        }
    }
    /// kinds only (used in signatures and coverage cells)
    pub fn shape(&self) -> String {
        match self {
            Cfg::Mem => "Mem".into(),
            Cfg::Phys => "Phys".into(),
            Cfg::Alt(c, _) => format!("Alt({})", c.shape()),
            Cfg::Ovl(ls) => format!("Ovl[{}]", ls.iter().map(|(c, _)| c.shape()).collect::<Vec<_>>().join(",")),
            Cfg::OvlShared(c, n) => format!("OvlShared{}({})", n, c.shape()),
        }
    }
    /// coarse family for finding signatures: which implementations take part
    pub fn family(&self) -> String {
        let mut has = (false, false, false, false);
        fn walk(c: &Cfg, h: &mut (bool, bool, bool, bool)) {
            match c {
                Cfg::Mem => h.0 = true,
                Cfg::Phys => h.1 = true,
                Cfg::Alt(c, _) => {
                    h.2 = true;
                    walk(c, h)
                }
                Cfg::Ovl(ls) => {
                    h.3 = true;
                    for (c, _) in ls {
                        walk(c, h)
                    }
                }
                Cfg::OvlShared(c, _) => {
                    h.3 = true;
                    walk(c, h)
                }
            }
        }
        walk(self, &mut has);
        let mut s = vec![];
        if has.3 {
            s.push("ovl");
        }
        if has.0 {
            s.push("mem");
        }
        if has.1 {
            s.push("phys");
        }
        s.join("+")
    }
    pub fn has_overlay(&self) -> bool {
        match self {
            Cfg::Mem | Cfg::Phys => false,
            Cfg::Alt(c, _) => c.has_overlay(),
            Cfg::Ovl(_) | Cfg::OvlShared(..) => true,
        }
    }
    pub fn has_phys(&self) -> bool {
        match self {
            Cfg::Mem => false,
            Cfg::Phys => true,
            Cfg::Alt(c, _) => c.has_phys(),
            Cfg::Ovl(ls) => ls.iter().any(|(c, _)| c.has_phys()),
            Cfg::OvlShared(c, _) => c.has_phys(),
        }
    }
    pub fn depth(&self) -> usize {
        match self {
            Cfg::Mem | Cfg::Phys => 0,
            Cfg::Alt(c, _) => 1 + c.depth(),
            Cfg::Ovl(ls) => 1 + ls.iter().map(|(c, _)| c.depth()).max().unwrap_or(0),
            Cfg::OvlShared(c, _) => 1 + c.depth(),
        }
    }
}

#[derive(Clone, Debug, PartialEq, Eq)]
pub enum Role {
    Top,
    /// underlying filesystem of altroot node `of`, re-rooted at `base`
    AltUnder { of: usize, base: String },
    /// layer `idx` of overlay node `of`, mounted from `base`
    Layer { of: usize, idx: usize, base: String },
    /// the one filesystem whose sub-directories `bases[k]` are the layers of overlay node `of`
    SharedUnder { of: usize, bases: Vec<String> },
}

#[derive(Clone, Debug)]
pub struct NodeInfo {
    pub id: usize,
    pub kind: &'static str,
    /// root path of this node's (wrapped) filesystem
    pub root: VfsPath,
    pub role: Role,
    pub phys_dir: Option<PathBuf>,
}

pub struct Built {
    pub root: VfsPath,
    pub nodes: Vec<NodeInfo>,
    pub ctl: Arc<MonCtl>,
    pub cfg: Cfg,
    scratch: Vec<PathBuf>,
}

impl Drop for Built {
    fn drop(&mut self) {
        for d in &self.scratch {
            let _ = std::fs::remove_dir_all(d);
        }
    }
}

static SCRATCH_COUNTER: AtomicU64 = AtomicU64::new(0);

pub fn scratch_base() -> PathBuf {
    let base = if std::path::Path::new("/dev/shm").is_dir() {
        PathBuf::from("/dev/shm")
    } else {
        std::env::temp_dir()
    };
    base.join(format!("vfsverif-{}", std::process::id()))
}

pub fn new_scratch_dir() -> PathBuf {
    let n = SCRATCH_COUNTER.fetch_add(1, Ordering::SeqCst);
    let d = scratch_base().join(format!("s{}", n));
    std::fs::create_dir_all(&d).expect("create scratch dir");
    d
}

pub fn cleanup_scratch_base() {
    let _ = std::fs::remove_dir_all(scratch_base());
}

struct Ctx {
    nodes: Vec<NodeInfo>,
    ctl: Arc<MonCtl>,
    scratch: Vec<PathBuf>,
}

fn build_node(cfg: &Cfg, role: Role, ctx: &mut Ctx) -> usize {
    // reserve the id first so that parents get smaller ids than children
    let id = ctx.nodes.len();
    ctx.nodes.push(NodeInfo { id, kind: "", root: VfsPath::new(MemoryFS::new()), role, phys_dir: None });
    match cfg {
        Cfg::Mem => {
            ctx.nodes[id].kind = "Mem";
            ctx.nodes[id].root = VfsPath::new(MonFs::new(Box::new(MemoryFS::new()), id, ctx.ctl.clone()));
        }
        Cfg::Phys => {
            let d = new_scratch_dir();
            ctx.scratch.push(d.clone());
            let root = d.join("root");
            std::fs::create_dir_all(&root).unwrap();
            // decoys outside the root: a sibling file and a prefix-twin directory
            std::fs::write(d.join("outside.txt"), b"outside").unwrap();
            std::fs::create_dir_all(d.join("root2")).unwrap();
            std::fs::write(d.join("root2").join("twin.txt"), b"twin").unwrap();
            ctx.nodes[id].kind = "Phys";
            ctx.nodes[id].phys_dir = Some(d);
            ctx.nodes[id].root = VfsPath::new(MonFs::new(Box::new(PhysicalFS::new(root)), id, ctx.ctl.clone()));
        }
        Cfg::Alt(inner, base) => {
            let child = build_node(inner, Role::AltUnder { of: id, base: base.clone() }, ctx);
            let under = at(&ctx.nodes[child].root, base);
            under.create_dir_all().expect("set-up: create altroot base");
            ctx.nodes[id].kind = "Alt";
            ctx.nodes[id].root = VfsPath::new(MonFs::new(Box::new(AltrootFS::new(under)), id, ctx.ctl.clone()));
        }
        Cfg::Ovl(layers) => {
            let mut paths = vec![];
            for (idx, (lc, base)) in layers.iter().enumerate() {
                let child = build_node(lc, Role::Layer { of: id, idx, base: base.clone() }, ctx);
                let lp = at(&ctx.nodes[child].root, base);
                lp.create_dir_all().expect("set-up: create layer base");
                paths.push(lp);
            }
            ctx.nodes[id].kind = "Ovl";
            ctx.nodes[id].root = VfsPath::new(MonFs::new(Box::new(OverlayFS::new(&paths)), id, ctx.ctl.clone()));
        }
        Cfg::OvlShared(inner, n) => {
            let bases: Vec<String> = (0..*n).map(|k| format!("/__lay{}", k)).collect();
            let child = build_node(inner, Role::SharedUnder { of: id, bases: bases.clone() }, ctx);
            let mut paths = vec![];
            for b in &bases {
                let lp = at(&ctx.nodes[child].root, b);
                lp.create_dir_all().expect("set-up: create layer base");
                paths.push(lp);
            }
            ctx.nodes[id].kind = "Ovl";
            ctx.nodes[id].root = VfsPath::new(MonFs::new(Box::new(OverlayFS::new(&paths)), id, ctx.ctl.clone()));
        }
    }
    id
}

pub fn build(cfg: &Cfg) -> Built {
    let mut ctx = Ctx { nodes: vec![], ctl: MonCtl::new(), scratch: vec![] };
    let top = build_node(cfg, Role::Top, &mut ctx);
    Built { root: ctx.nodes[top].root.clone(), nodes: ctx.nodes, ctl: ctx.ctl, cfg: cfg.clone(), scratch: ctx.scratch }
}

impl Built {
    /// children (node ids) of node `id`
    pub fn children(&self, id: usize) -> Vec<usize> {
        self.nodes
            .iter()
            .filter(|n| match &n.role {
                Role::AltUnder { of, .. } | Role::Layer { of, .. } | Role::SharedUnder { of, .. } => *of == id,
                Role::Top => false,
            })
            .map(|n| n.id)
            .collect()
    }
    /// layer views (VfsPath at the layer base) of overlay node `id`, in layer order
    pub fn layer_views(&self, id: usize) -> Vec<(usize, VfsPath, String)> {
        let mut v: Vec<(usize, usize, VfsPath, String)> = self
            .nodes
            .iter()
            .filter_map(|n| match &n.role {
                Role::Layer { of, idx, base } if *of == id => Some((*idx, n.id, at(&n.root, base), base.clone())),
                _ => None,
            })
            .collect();
        for n in &self.nodes {
            if let Role::SharedUnder { of, bases } = &n.role {
                if *of == id {
                    for (k, b) in bases.iter().enumerate() {
                        v.push((k, n.id, at(&n.root, b), b.clone()));
                    }
                }
            }
        }
        v.sort_by_key(|x| x.0);
        v.into_iter().map(|x| (x.1, x.2, x.3)).collect()
    }

    /// Regions that belong to lower layers (idx >= 1) of any overlay of the stack: (node, path prefix within that
    /// node's namespace; "" = the whole filesystem of that node).
    pub fn lower_regions(&self) -> Vec<(usize, String)> {
        let mut whole: std::collections::BTreeSet<usize> = std::collections::BTreeSet::new();
        let mut regions: Vec<(usize, String)> = vec![];
        for n in &self.nodes {
            match &n.role {
                Role::Layer { idx, .. } if *idx >= 1 => {
                    whole.insert(n.id);
                }
                Role::SharedUnder { bases, .. } => {
                    for b in bases.iter().skip(1) {
                        regions.push((n.id, b.clone()));
                    }
                }
                _ => {}
            }
        }
        loop {
            let mut changed = false;
            for n in &self.nodes {
                let parent = match &n.role {
                    Role::AltUnder { of, .. } | Role::Layer { of, .. } | Role::SharedUnder { of, .. } => Some(*of),
                    Role::Top => None,
                };
                if let Some(p) = parent {
                    if whole.contains(&p) && whole.insert(n.id) {
                        changed = true;
                    }
                }
            }
            if !changed {
                break;
            }
        }
        regions.extend(whole.into_iter().map(|n| (n, String::new())));
        regions
    }

    /// Views (node id, root path of the view) whose deep state must never change: one per lower layer.
    /// (node id, root of that node's filesystem, path prefix of the lower region inside it)
    pub fn lower_views(&self) -> Vec<(usize, VfsPath, String)> {
        let mut v = vec![];
        for n in &self.nodes {
            match &n.role {
                Role::Layer { idx, .. } if *idx >= 1 => v.push((n.id, n.root.clone(), String::new())),
                Role::SharedUnder { bases, .. } => {
                    for b in bases.iter().skip(1) {
                        v.push((n.id, n.root.clone(), b.clone()));
                    }
                }
                _ => {}
            }
        }
        v
    }
}

const ALT_BASES: &[&str] = &["", "/__alt", "/__alt/p", "/__alt/p/q", "/__alt2"];

/// Random configuration. `max_depth` bounds adapter nesting; `phys` allows physical backends.
pub fn gen_cfg(rng: &mut Rng, max_depth: usize, phys: bool, max_layers: usize) -> Cfg {
    let base = |rng: &mut Rng| if phys && rng.chance(2, 5) { Cfg::Phys } else { Cfg::Mem };
    if max_depth == 0 {
        return base(rng);
    }
    match rng.below(5) {
        0 => base(rng),
        1 | 2 => {
            let inner = gen_cfg(rng, max_depth - 1, phys, max_layers);
            Cfg::Alt(Box::new(inner), rng.pick(ALT_BASES).to_string())
        }
        3 if rng.chance(1, 3) => {
            let inner = gen_cfg(rng, max_depth - 1, phys, 2);
            Cfg::OvlShared(Box::new(inner), rng.range(2, max_layers.max(2)))
        }
        _ => {
            let n = rng.range(1, max_layers.max(1));
            let mut layers = vec![];
            for i in 0..n {
                let lc = gen_cfg(rng, max_depth - 1, phys, 2);
                let b = if rng.chance(1, 2) { String::new() } else { format!("/__lay{}", i) };
                layers.push((lc, b));
            }
            Cfg::Ovl(layers)
        }
    }
}


/// Does this recorded call touch a lower-layer region?
pub fn event_in_regions(e: &crate::monfs::Event, regions: &[(usize, String)]) -> bool {
    regions.iter().any(|(n, p)| {
        // paths a call can change: its only path; for copy_file the destination only; for moves both
        let touched: Vec<&String> = match (e.method, e.path2.as_ref()) {
            ("copy_file", Some(d)) => vec![d],
            (_, Some(d)) => vec![&e.path, d],
            (_, None) => vec![&e.path],
        };
        e.node == *n && (p.is_empty() || touched.into_iter().any(|q| q == p || crate::model::is_under(q, p)))
    })
}
