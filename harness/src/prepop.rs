//! Generated, conflict-free pre-population of overlay layers (C08/C09/C10).

use crate::cfg::{Built, Cfg, Role};
use crate::gen::Universe;
use crate::model::{ancestors, Model, Node};
use crate::ops::at;
use crate::rng::Rng;
use std::collections::{BTreeMap, BTreeSet};
use std::io::Write;
use vfs::VfsPath;

#[derive(Clone, Debug)]
pub struct Plan {
    /// overlay node the plan was applied to
    pub ovl_node: usize,
    /// prefix of the top-level namespace inside the overlay namespace
    pub prefix: String,
    /// per layer: path (top-level namespace) -> node
    pub layers: Vec<BTreeMap<String, Node>>,
    pub union: Model,
    /// paths (top-level namespace) present in some layer >= 1
    pub lower_paths: BTreeSet<String>,
}

impl Plan {
    pub fn render(&self) -> Vec<String> {
        self.layers
            .iter()
            .enumerate()
            .map(|(i, l)| {
                format!(
                    "layer{}: {}",
                    i,
                    l.iter()
                        .map(|(p, n)| match n {
                            Node::Dir => format!("{}/", p),
                            Node::File(b) => format!("{}={}", p, crate::json::bytes_repr(b)),
                        })
                        .collect::<Vec<_>>()
                        .join(" ")
                )
            })
            .collect()
    }
}

/// Finds the outermost overlay reachable from the top through altroots only.
pub fn outer_overlay(b: &Built) -> Option<(usize, String)> {
    let mut id = 0usize;
    let mut cfg = &b.cfg;
    let mut prefix = String::new();
    loop {
        match cfg {
            Cfg::Ovl(_) | Cfg::OvlShared(..) => return Some((id, prefix)),
            Cfg::Alt(inner, base) => {
                // top path q maps to inner path base+q
                prefix = format!("{}{}", base, prefix);
                let child = b.nodes.iter().find(|n| matches!(&n.role, Role::AltUnder { of, .. } if *of == id))?.id;
                id = child;
                cfg = inner;
            }
            _ => return None,
        }
    }
}

pub fn gen_plan(rng: &mut Rng, u: &Universe, nlayers: usize, ovl_node: usize, prefix: String) -> Plan {
    // master typed tree
    let mut master: BTreeMap<String, Node> = BTreeMap::new();
    let k = rng.range(2, 9);
    for _ in 0..k {
        let p = rng.pick(&u.paths).clone();
        for a in ancestors(&p) {
            if !a.is_empty() {
                master.insert(a, Node::Dir);
            }
        }
        if !master.contains_key(&p) {
            // leaves: files more often than directories
            let is_dir = rng.chance(2, 5);
            master.insert(p, if is_dir { Node::Dir } else { Node::File(vec![]) });
        }
    }
    // a file cannot have children in the master tree
    let keys: Vec<String> = master.keys().cloned().collect();
    for kx in &keys {
        if let Some(Node::File(_)) = master.get(kx) {
            let has_child = keys.iter().any(|o| crate::model::is_under(o, kx));
            if has_child {
                master.insert(kx.clone(), Node::Dir);
            }
        }
    }
    let mut layers: Vec<BTreeMap<String, Node>> = vec![BTreeMap::new(); nlayers];
    for (li, layer) in layers.iter_mut().enumerate() {
        // upper layer is populated less often so that lower-only entries are common
        let p_incl = if li == 0 { 3 } else { 6 };
        for (p, n) in &master {
            let par = crate::model::parent_of(p);
            let parent_ok = par.is_empty() || layer.contains_key(&par);
            if parent_ok && rng.chance(p_incl, 10) {
                let node = match n {
                    Node::Dir => Node::Dir,
                    Node::File(_) => {
                        let len = *rng.pick(&[0usize, 1, 5, 40]);
                        Node::File(rng.bytes(len, rng.0 % 2 == 0))
                    }
                };
                layer.insert(p.clone(), node);
            }
        }
    }
    // now and then: a lower layer holds a FILE where the serving (earlier) layer holds a directory. The union is
    // still well defined (the first layer that has the path decides, directories merge the children of the layers
    // in which the path is a directory), so the model is unchanged; the inverse conflict (file above directory)
    // would make the union ill-formed and is never generated.
    if nlayers >= 2 && rng.chance(1, 3) {
        let dirs: Vec<String> = master.iter().filter(|(_, n)| matches!(n, Node::Dir)).map(|(p, _)| p.clone()).collect();
        if !dirs.is_empty() {
            let d = rng.pick(&dirs).clone();
            if let Some(first) = layers.iter().position(|l| l.contains_key(&d)) {
                let cands: Vec<usize> = (first + 1..nlayers)
                    .filter(|j| {
                        let par = crate::model::parent_of(&d);
                        !layers[*j].contains_key(&d) && (par.is_empty() || matches!(layers[*j].get(&par), Some(Node::Dir)))
                    })
                    .collect();
                if !cands.is_empty() {
                    let j = *rng.pick(&cands);
                    layers[j].insert(d, Node::File(b"shadowed lower file".to_vec()));
                }
            }
        }
    }
    let mut union = Model::new();
    let mut lower_paths = BTreeSet::new();
    for (li, layer) in layers.iter().enumerate() {
        for (p, n) in layer {
            if li >= 1 {
                lower_paths.insert(p.clone());
            }
            union.m.entry(p.clone()).or_insert_with(|| n.clone());
        }
    }
    Plan { ovl_node, prefix, layers, union, lower_paths }
}

pub fn write_tree(view: &VfsPath, prefix: &str, tree: &BTreeMap<String, Node>) -> Result<(), String> {
    if !prefix.is_empty() {
        at(view, prefix).create_dir_all().map_err(|e| format!("set-up create_dir_all({}): {}", prefix, e))?;
    }
    for (p, n) in tree {
        let full = format!("{}{}", prefix, p);
        let vp = at(view, &full);
        match n {
            Node::Dir => vp.create_dir().map_err(|e| format!("set-up create_dir({}): {}", full, e))?,
            Node::File(b) => {
                let mut w = vp.create_file().map_err(|e| format!("set-up create_file({}): {}", full, e))?;
                w.write_all(b).map_err(|e| format!("set-up write({}): {}", full, e))?;
                w.flush().map_err(|e| format!("set-up flush({}): {}", full, e))?;
            }
        }
    }
    Ok(())
}

pub fn apply_plan(b: &Built, plan: &Plan) -> Result<(), String> {
    let views = b.layer_views(plan.ovl_node);
    for (i, (_, view, _)) in views.iter().enumerate() {
        if i < plan.layers.len() {
            write_tree(view, &plan.prefix, &plan.layers[i])?;
        }
    }
    Ok(())
}
