//! C04 (part B) — flush visibility through a still-open handle, read-back with every buffer size,
//! copy/move within and across filesystem instances. Part A is the engine run with rich write scripts.

use crate::cfg::build;
use crate::json::{bytes_repr, J};
use crate::ops::{at, seek_from, WStep};
use crate::panicmon::guard;
use crate::props::c14::{cfg_for_handles, gen_bytes};
use crate::props::par_run;
use crate::report::{Acc, Violation};
use crate::rng::Rng;
use crate::snapshot::read_all;
use crate::Args;
use std::io::{Cursor, Seek, SeekFrom, Write};

fn gen_session(rng: &mut Rng, seeks: bool, quick: bool) -> Vec<WStep> {
    let mut s = vec![];
    for _ in 0..rng.range(1, 8) {
        match rng.below(6) {
            0 | 1 | 2 => {
                let mut b = gen_bytes(rng, quick);
                if seeks && b.is_empty() {
                    b = vec![b'z'];
                }
                s.push(WStep::Write(b))
            }
            3 if seeks => {
                let whence = rng.below(3) as u8;
                let off: i64 = if whence == 0 { *rng.pick(&[0i64, 1, 7, 300, 8192]) } else { *rng.pick(&[-8193i64, -300, -7, -1, 0, 1, 7, 300]) };
                s.push(WStep::Seek(whence, off));
            }
            _ => s.push(WStep::Flush),
        }
    }
    s
}

pub fn run_case(a: &Args, tag: &'static str, idx: u64, acc: &mut Acc) {
    let mut rng = Rng::derive(a.seed, tag, idx);
    let cfg = cfg_for_handles(&mut rng);
    let b = build(&cfg);
    let path = at(&b.root, "/f");
    let quick = a.tier != "thorough";
    let mut reference: Vec<u8> = vec![];
    let mut log: Vec<String> = vec![];
    let nsessions = rng.range(1, 3);
    acc.evaluations += 1;
    let order = idx * 10;
    let mk = |log: &Vec<String>, what: J| J::obj().set("tag", J::s(tag)).set("seed", J::i(a.seed)).set("history", J::i(idx)).set("config", J::s(cfg.desc())).set("trace", J::arr(log.iter().map(J::s))).set("what", what);
    for sess in 0..nsessions {
        let append = sess > 0 && rng.chance(1, 2);
        let seeks = !(append && cfg.has_phys());
        let script = gen_session(&mut rng, seeks, quick);
        let mut cur = Cursor::new(if append { reference.clone() } else { vec![] });
        if append {
            let _ = cur.seek(SeekFrom::End(0));
        }
        log.push(format!("session {} {}", sess, if append { "append" } else { "create" }));
        let r = guard(|| -> Result<Option<(usize, Vec<u8>, Vec<u8>)>, String> {
            let mut w = if append { path.append_file() } else { path.create_file() }.map_err(|e| e.to_string())?;
            for (i, st) in script.iter().enumerate() {
                match st {
                    WStep::Write(bytes) => {
                        w.write_all(bytes).map_err(|e| e.to_string())?;
                        cur.write_all(bytes).unwrap();
                    }
                    WStep::Seek(wh, off) => {
                        let x = w.seek(seek_from(*wh, *off));
                        let y = cur.seek(seek_from(*wh, *off));
                        if x.is_ok() != y.is_ok() {
                            return Err(format!("seek({},{}) handle={:?} cursor={:?}", wh, off, x.map_err(|e| e.kind()), y.map_err(|e| e.kind())));
                        }
                    }
                    WStep::Flush => {
                        w.flush().map_err(|e| e.to_string())?;
                        // data flushed through a still-open handle is visible to a reader opened afterwards
                        let seen = read_all(&path, 4096).map_err(|e| e.display)?;
                        if &seen != cur.get_ref() {
                            return Ok(Some((i, seen, cur.get_ref().clone())));
                        }
                    }
                }
            }
            drop(w);
            Ok(None)
        });
        log.push(format!("  script {}", script.iter().map(|x| match x { WStep::Write(b) => format!("write({})", bytes_repr(b)), WStep::Seek(w, o) => format!("seek({},{})", w, o), WStep::Flush => "flush".into() }).collect::<Vec<_>>().join(";")));
        acc.steps += script.len() as u64;
        match r {
            Err(p) => {
                acc.violate(Violation { property: "C13", signature: format!("panic|write-session|{}|{}|{}", cfg.family(), p.head(), p.file()), summary: format!("write session panicked: {} at {}", p.message, p.location), detail: mk(&log, J::Null), order });
                return;
            }
            Ok(Err(e)) => {
                acc.violate(Violation { property: "C04", signature: format!("session-failed|{}|{}", if append { "append" } else { "create" }, cfg.family()), summary: format!("write session failed: {}", e), detail: mk(&log, J::Null), order });
                return;
            }
            Ok(Ok(Some((i, seen, want)))) => {
                acc.violate(Violation {
                    property: "C04",
                    signature: format!("flush-not-visible|{}|{}", if append { "append" } else { "create" }, cfg.family()),
                    summary: format!("after flush (step {}) a new reader sees {} but the handle's buffer is {}", i, bytes_repr(&seen), bytes_repr(&want)),
                    detail: mk(&log, J::Null),
                    order,
                });
                return;
            }
            Ok(Ok(None)) => {}
        }
        reference = cur.into_inner();
        // read back with every buffer size + metadata
        for buf in [1usize, 2, 7, 4096, 8192, reference.len().max(1), reference.len() + 1] {
            if buf == 1 && reference.len() > 70000 {
                continue;
            }
            match read_all(&path, buf) {
                Ok(got) if got == reference => {}
                Ok(got) => {
                    acc.violate(Violation { property: "C04", signature: format!("read-back|buf:{}|{}", if buf <= 7 { buf.to_string() } else if buf == reference.len() { "len".into() } else if buf == reference.len() + 1 { "len+1".into() } else { buf.to_string() }, cfg.family()), summary: format!("read with buffer {} returns {} instead of {}", buf, bytes_repr(&got), bytes_repr(&reference)), detail: mk(&log, J::Null), order });
                    return;
                }
                Err(e) => {
                    acc.violate(Violation { property: "C04", signature: format!("read-back-failed|{}", cfg.family()), summary: format!("reading the file back failed: {}", e.display), detail: mk(&log, J::Null), order });
                    return;
                }
            }
        }
        // read_to_string: the text for valid UTF-8 (multi-byte characters straddle the 8 KiB boundaries of large
        // contents), an error otherwise
        match (std::str::from_utf8(&reference), guard(|| path.read_to_string())) {
            (Ok(text), Ok(Ok(got))) if got == text => {}
            (Err(_), Ok(Err(_))) => {}
            (want, got) => {
                acc.violate(Violation { property: "C04", signature: format!("read_to_string|{}|{}", if want.is_ok() { "valid-utf8" } else { "invalid-utf8" }, cfg.family()), summary: format!("read_to_string of a {}-byte file ({}) returned {}", reference.len(), if want.is_ok() { "valid UTF-8" } else { "not UTF-8" }, match got { Ok(Ok(s)) => format!("Ok({} bytes)", s.len()), Ok(Err(e)) => format!("Err({})", e), Err(p) => format!("PANIC {}", p.message) }), detail: mk(&log, J::Null), order });
                return;
            }
        }
        match path.metadata() {
            Ok(m) if m.len == reference.len() as u64 => {}
            other => {
                acc.violate(Violation { property: "C04", signature: format!("metadata-len|{}", cfg.family()), summary: format!("metadata reports {:?} for a file of {} bytes", other.map(|m| m.len).map_err(|e| e.to_string()), reference.len()), detail: mk(&log, J::Null), order });
                return;
            }
        }
        acc.fingerprints.insert(Rng::derive(reference.len() as u64, &cfg.shape(), reference.iter().take(16).fold(0u64, |a, b| a.wrapping_mul(31).wrapping_add(*b as u64))).0);
    }
    // ---- copy / move, within the instance and across instances
    let other_cfg = cfg_for_handles(&mut rng);
    let other = build(&other_cfg);
    let route = rng.below(3);
    let (dst, route_name) = match route {
        0 => (at(&b.root, "/g"), "same-instance"),
        1 => (at(&build_keep(&cfg, &mut log).root, "/g"), "twin-instance"),
        _ => (at(&other.root, "/g"), "other-backend"),
    };
    let mv = rng.chance(1, 2);
    let r = guard(|| if mv { path.move_file(&dst) } else { path.copy_file(&dst) });
    log.push(format!("{} /f -> /g ({}, dest config {})", if mv { "move_file" } else { "copy_file" }, route_name, if route == 2 { other_cfg.desc() } else { cfg.desc() }));
    let sig_tail = format!("{}|{}|{}→{}", if mv { "move" } else { "copy" }, route_name, cfg.family(), if route == 2 { other_cfg.family() } else { cfg.family() });
    match r {
        Err(p) => acc.violate(Violation { property: "C13", signature: format!("panic|transfer|{}|{}", p.head(), p.file()), summary: format!("transfer panicked: {}", p.message), detail: mk(&log, J::Null), order }),
        Ok(Err(e)) => acc.violate(Violation { property: "C04", signature: format!("transfer-failed|{}", sig_tail), summary: format!("transfer of an existing file to a free destination failed: {}", e), detail: mk(&log, J::Null), order }),
        Ok(Ok(())) => {
            let got = read_all(&dst, 8192);
            if got.as_ref().ok() != Some(&reference) {
                acc.violate(Violation { property: "C04", signature: format!("transfer-bytes|{}", sig_tail), summary: format!("destination holds {:?} instead of {}", got.map(|b| bytes_repr(&b)).map_err(|e| e.display), bytes_repr(&reference)), detail: mk(&log, J::Null), order });
            }
            let src_left = path.exists().unwrap_or(true);
            if mv == src_left {
                acc.violate(Violation { property: "C04", signature: format!("transfer-source|{}", sig_tail), summary: format!("after {} the source exists()={}", if mv { "move_file" } else { "copy_file" }, src_left), detail: mk(&log, J::Null), order });
            }
            if !mv {
                let again = read_all(&path, 8192);
                if again.as_ref().ok() != Some(&reference) {
                    acc.violate(Violation { property: "C04", signature: format!("copy-changed-source|{}", sig_tail), summary: "copy_file changed the source bytes".into(), detail: mk(&log, J::Null), order });
                }
            }
            // a copy is independent of its source: a later write session on either name must leave the other untouched
            if !mv {
                let (written, other, wname) = if rng.chance(1, 2) { (&path, &dst, "source") } else { (&dst, &path, "destination") };
                let append = rng.chance(1, 2);
                let r = guard(|| -> Result<(), String> {
                    let mut w = if append { written.append_file() } else { written.create_file() }.map_err(|e| e.to_string())?;
                    w.write_all(b"changed after the copy").map_err(|e| e.to_string())?;
                    w.flush().map_err(|e| e.to_string())?;
                    Ok(())
                });
                log.push(format!("{} on the {} + write + flush + drop => {:?}", if append { "append_file" } else { "create_file" }, wname, r.as_ref().map(|x| x.as_ref().map_err(|e| e.clone())).map_err(|p| p.message.clone())));
                if matches!(r, Ok(Ok(()))) {
                    let still = read_all(other, 8192);
                    if still.as_ref().ok() != Some(&reference) {
                        acc.violate(Violation { property: "C04", signature: format!("copy-not-independent|written:{}|{}", wname, sig_tail), summary: format!("after copy_file, a {} session on the {} changed the other file: it now holds {:?} instead of {}", if append { "append" } else { "create" }, wname, still.map(|b| bytes_repr(&b)).map_err(|e| e.display), bytes_repr(&reference)), detail: mk(&log, J::Null), order });
                    }
                    acc.count("copy_independence_checks", 1);
                }
            }
            acc.cell(format!("{}|{}", if mv { "move" } else { "copy" }, route_name));
        }
    }
    if idx < 3 {
        acc.sample(idx, J::obj().set("case", J::i(idx)).set("config", J::s(cfg.desc())).set("trace", J::arr(log.iter().map(J::s))));
    }
    acc.note("config_shapes", cfg.shape());
}

// a second instance of the same configuration (kept alive by leaking it into the log's lifetime is not needed:
// the Built is dropped at the end of the case because we only keep its root VfsPath clone — scratch dirs are
// removed by Built::drop, so keep it in a thread-local slot until the case ends)
thread_local! {
    static KEEP: std::cell::RefCell<Vec<crate::cfg::Built>> = const { std::cell::RefCell::new(Vec::new()) };
}
fn build_keep(cfg: &crate::cfg::Cfg, _log: &mut Vec<String>) -> BuiltRef {
    let b = build(cfg);
    let root = b.root.clone();
    KEEP.with(|k| {
        let mut k = k.borrow_mut();
        k.clear();
        k.push(b);
    });
    BuiltRef { root }
}
struct BuiltRef {
    root: vfs::VfsPath,
}

pub fn run(a: &Args) -> Acc {
    let n = a.n(6000, 60000);
    par_run(a, "c04-sessions", n, |a, idx, acc| run_case(a, "c04-sessions", idx, acc))
}
