//! C18 — EmbeddedFS is a faithful read-only view: lock-step differential against PhysicalFS on the same folder,
//! over the complete path set; mutators must be refused as not-supported without effect.

use crate::gen::gen_rscript_extreme;
use crate::json::J;
use crate::model::{ancestors, Model, Node};
use crate::ops::{exec, render_res, Kind, Op, Out, TimeField};
use crate::props::par_run;
use crate::report::{Acc, Violation};
use crate::rng::Rng;
use crate::snapshot::{diff_snaps, snapshot, walk};
use crate::Args;
use rust_embed::RustEmbed;
use std::collections::BTreeSet;
use vfs::{EmbeddedFS, PhysicalFS, VfsPath};

#[derive(RustEmbed, Debug)]
#[folder = "fixtures/embed_tree"]
struct Fixture;

#[derive(RustEmbed, Debug)]
#[folder = "/repo/test/test_directory"]
struct RepoFixture;

/// A hand-written `RustEmbed` over a per-thread generated file table: EmbeddedFS is defined against the trait, so
/// the path set need not be fixed at compile time. `iter()` hands out the table in generation order (shuffled),
/// exactly as the derive does with its static name table.
#[derive(Debug)]
struct GenFixture;

struct GenTable {
    names: &'static [&'static str],
    data: std::collections::HashMap<&'static str, &'static [u8]>,
}

thread_local! {
    static GEN: std::cell::RefCell<GenTable> = std::cell::RefCell::new(GenTable { names: &[], data: Default::default() });
}

impl RustEmbed for GenFixture {
    fn get(file_path: &str) -> Option<rust_embed::EmbeddedFile> {
        GEN.with(|g| g.borrow().data.get(file_path).map(|d| rust_embed::EmbeddedFile { data: std::borrow::Cow::Borrowed(*d), metadata: rust_embed::Metadata::__rust_embed_new([0u8; 32], Some(1_600_000_000), Some(1_600_000_000)) }))
    }
    fn iter() -> rust_embed::Filenames {
        rust_embed::Filenames::Embedded(GEN.with(|g| g.borrow().names.iter()))
    }
}

/// Names chosen so that a component re-occurs as text earlier in the same path, as a prefix / suffix of a sibling,
/// or as its own parent's name.
const GEN_NAMES: &[&str] = &["a", "ab", "b", "ba", "x", "data", "ta", "a.b", ".h", "é", "a b", "f.txt", "x.txt"];

fn gen_embedded_tree(rng: &mut Rng) -> Vec<(String, Vec<u8>)> {
    let pool: Vec<&str> = {
        let mut p = GEN_NAMES.to_vec();
        rng.shuffle(&mut p);
        p.truncate(rng.range(2, 5));
        p
    };
    let mut files: Vec<(String, Vec<u8>)> = vec![];
    for _ in 0..rng.range(1, 9) {
        let depth = rng.range(1, 4);
        let path: String = (0..depth).map(|_| format!("/{}", rng.pick(&pool))).collect();
        // a path is either a file or a directory: skip candidates that are (or contain) an existing file's path
        if files.iter().any(|(f, _)| f == &path || crate::model::is_under(f, &path) || crate::model::is_under(&path, f)) {
            continue;
        }
        let len = *rng.pick(&[0usize, 1, 5, 40, 9000]);
        files.push((path, rng.bytes(len, false)));
    }
    files
}

pub fn run_generated(a: &Args, idx: u64, acc: &mut Acc) {
    let mut rng = Rng::derive(a.seed, "c18-generated", idx);
    let files = gen_embedded_tree(&mut rng);
    if files.is_empty() {
        return;
    }
    // the same tree on disk for the PhysicalFS side
    let dir = crate::cfg::new_scratch_dir();
    for (p, b) in &files {
        let full = dir.join(&p[1..]);
        std::fs::create_dir_all(full.parent().unwrap()).unwrap();
        std::fs::write(&full, b).unwrap();
    }
    // leaked: a few hundred bytes per case (the big contents are rare)
    let names: Vec<&'static str> = files.iter().map(|(p, _)| &*Box::leak(p[1..].to_string().into_boxed_str())).collect();
    let data = files.iter().zip(&names).map(|((_, b), n)| (*n, &*Box::leak(b.clone().into_boxed_slice()))).collect();
    GEN.with(|g| *g.borrow_mut() = GenTable { names: Box::leak(names.into_boxed_slice()), data });
    let efs = VfsPath::new(EmbeddedFS::<GenFixture>::new());
    let before = acc.violations.len();
    run_fixture(a, "generated", efs, dir.to_str().unwrap(), acc);
    if acc.violations.len() > before {
        acc.note("generated_trees_with_violations", format!("case {} files {:?}", idx, files.iter().map(|(p, b)| format!("{} ({} bytes)", p, b.len())).collect::<Vec<_>>()));
    }
    acc.count("generated_trees", 1);
    let _ = std::fs::remove_dir_all(&dir);
}

fn collect_files(dir: &std::path::Path, prefix: &str, out: &mut Vec<(String, Vec<u8>)>) {
    let mut entries: Vec<_> = std::fs::read_dir(dir).unwrap().map(|e| e.unwrap()).collect();
    entries.sort_by_key(|e| e.file_name());
    for e in entries {
        let name = e.file_name().into_string().unwrap();
        let p = format!("{}/{}", prefix, name);
        if e.file_type().unwrap().is_dir() {
            collect_files(&e.path(), &p, out);
        } else {
            out.push((p, std::fs::read(e.path()).unwrap()));
        }
    }
}

fn path_set(model: &Model) -> Vec<String> {
    let mut s: BTreeSet<String> = BTreeSet::new();
    for p in model.m.keys() {
        if p.is_empty() {
            continue;
        }
        s.insert(p.clone());
        // proper prefixes and one-character extensions of the last component, absent siblings, deeper paths
        let par = crate::model::parent_of(p);
        let name = crate::model::name_of(p);
        let chars: Vec<char> = name.chars().collect();
        for k in 1..chars.len() {
            let pre: String = chars[..k].iter().collect();
            if pre != "." && pre != ".." {
                s.insert(format!("{}/{}", par, pre));
            }
        }
        s.insert(format!("{}x", p));
        s.insert(format!("{}.", p));
        s.insert(format!("{}/zz", par));
        s.insert(format!("{}/below", p));
        s.insert(format!("{}/below/deeper", p));
    }
    s.insert("/nope".into());
    s.insert("/nope/nope".into());
    s.retain(|p| !p.ends_with('/') && !p.contains("//"));
    s.into_iter().collect()
}

fn run_fixture(a: &Args, name: &'static str, efs: VfsPath, dir: &str, acc: &mut Acc) {
    let pfs = VfsPath::new(PhysicalFS::new(dir));
    let mut files = vec![];
    collect_files(std::path::Path::new(dir), "", &mut files);
    let mut model = Model::new();
    for (p, b) in &files {
        for anc in ancestors(p) {
            model.m.insert(anc, Node::Dir);
        }
        model.m.insert(p.clone(), Node::File(b.clone()));
    }
    let paths = path_set(&model);
    let mk = |what: J| J::obj().set("fixture", J::s(name)).set("dir", J::s(dir)).set("files", J::arr(files.iter().map(|(p, b)| J::s(format!("{} ({} bytes)", p, b.len()))))).set("what", what);
    let mut order = 0u64;
    // ---- observers: full snapshot of both, with three read-buffer sizes
    for buf in [1usize, 7, 8192] {
        let se = snapshot(&efs, &paths, buf);
        let sp = snapshot(&pfs, &paths, buf);
        acc.count("observer_calls", se.calls + sp.calls);
        for (m, p, e) in se.panics() {
            let pi = e.panic.clone().unwrap();
            acc.violate(Violation { property: "C13", signature: format!("panic|embedded:{}|{}|{}|{}", m, model.class(&p).name(), pi.head(), pi.file()), summary: format!("EmbeddedFS {}({:?}) panicked: {} at {}", m, p, pi.message, pi.location), detail: mk(J::s(&e.display)), order });
            acc.violate(Violation { property: "C18", signature: format!("panic|{}|{}", m, model.class(&p).name()), summary: format!("EmbeddedFS {}({:?}) panicked: {} at {}", m, p, pi.message, pi.location), detail: mk(J::s(&e.display)), order });
        }
        for d in diff_snaps(&se, &sp) {
            acc.violate(Violation {
                property: "C18",
                signature: format!("differs|{}|{}|{}", d.observer, model.class(&d.path).name(), name),
                summary: format!("{} on {:?}: EmbeddedFS {} but PhysicalFS on the same folder {}", d.observer, d.path, d.expected, d.got),
                detail: mk(J::Null),
                order,
            });
        }
        // also against the model built from the folder with std::fs (guards against both sides being wrong together)
        for d in crate::snapshot::diff_model(&se, &model) {
            acc.violate(Violation {
                property: "C18",
                signature: format!("vs-folder|{}|{}|{}", d.observer, model.class(&d.path).name(), name),
                summary: format!("{} on {:?}: EmbeddedFS reports {} but the folder has {}", d.observer, d.path, d.got, d.expected),
                detail: mk(J::Null),
                order,
            });
        }
        crate::errmon::check_snapshot(&crate::cfg::Cfg::Mem, &se, &model, acc, &|sig, summary, what| Violation { property: "C12", signature: format!("embedded|{}", sig), summary, detail: what, order: 0 });
        for v in crate::snapshot::check_consistency(&se) {
            acc.violate(Violation { property: "C05", signature: format!("embedded|{}|{}", v.rule, model.class(&v.path).name()), summary: format!("EmbeddedFS: {} at {:?}: {}", v.rule, v.path, v.detail), detail: mk(J::Null), order });
        }
        acc.evaluations += se.obs.len() as u64;
        for p in se.obs.keys() {
            acc.fingerprints.insert(Rng::derive(0, p, name.len() as u64).0);
        }
        acc.count("paths_compared", se.obs.len() as u64);
    }
    // ---- per-path operations: every public path operation on every path of the set (+ root)
    let mut all = vec![String::new()];
    all.extend(paths.iter().cloned());
    let mut rng = Rng::derive(a.seed, "c18", 0);
    let before = snapshot(&efs, &paths, 4096);
    for p in &all {
        let c = model.class(p);
        let dst_free = "/nope2".to_string();
        let mut ops = vec![
            Op::OpenRead(p.clone(), vec![]),
            Op::OpenRead(p.clone(), crate::gen::gen_rscript(&mut rng)),
            Op::ReadDir(p.clone()),
            Op::Metadata(p.clone()),
            Op::Exists(p.clone()),
            Op::IsFile(p.clone()),
            Op::IsDir(p.clone()),
            Op::ReadToString(p.clone()),
            Op::WalkDir(p.clone()),
        ];
        let muts = vec![
            Op::CreateDir(p.clone()),
            Op::CreateFile(p.clone(), vec![crate::ops::WStep::Write(b"x".to_vec())]),
            Op::AppendFile(p.clone(), vec![crate::ops::WStep::Write(b"x".to_vec())]),
            Op::RemoveFile(p.clone()),
            Op::RemoveDir(p.clone()),
            Op::CreateDirAll(p.clone()),
            Op::RemoveDirAll(p.clone()),
            Op::CopyFile(p.clone(), dst_free.clone()),
            Op::MoveFile(p.clone(), dst_free.clone()),
            Op::CopyDir(p.clone(), dst_free.clone()),
            Op::MoveDir(p.clone(), dst_free.clone()),
            Op::SetTime(p.clone(), TimeField::Created, 5, 0),
            Op::SetTime(p.clone(), TimeField::Modified, 5, 0),
            Op::SetTime(p.clone(), TimeField::Accessed, 5, 0),
        ];
        ops.extend(muts);
        // extreme offsets: only panics matter (File and Cursor legitimately differ out there)
        if let Err(e) = exec(&efs, &Op::OpenRead(p.clone(), gen_rscript_extreme(&mut rng))) {
            if let Some(pi) = &e.panic {
                acc.violate(Violation { property: "C13", signature: format!("panic|embedded:open_read-extreme|{}|{}|{}", c.name(), pi.head(), pi.file()), summary: format!("EmbeddedFS read handle panicked: {} at {}", pi.message, pi.location), detail: mk(J::Null), order });
            }
        }
        for op in ops {
            order += 1;
            acc.steps += 1;
            let re = exec(&efs, &op);
            acc.cell(format!("{}|{}|{}", op.name(), c.name(), if re.is_ok() { "Ok" } else { "Err" }));
            if let Err(e) = &re {
                if let Some(pi) = &e.panic {
                    acc.violate(Violation { property: "C13", signature: format!("panic|embedded:{}|{}|{}|{}", op.name(), c.name(), pi.head(), pi.file()), summary: format!("EmbeddedFS {} panicked: {} at {}", op.render(), pi.message, pi.location), detail: mk(J::Null), order });
                    acc.violate(Violation { property: "C18", signature: format!("panic|{}|{}", op.name(), c.name()), summary: format!("EmbeddedFS {} panicked: {} at {}", op.render(), pi.message, pi.location), detail: mk(J::Null), order });
                    continue;
                }
                crate::errmon::check_op_error(&crate::cfg::Cfg::Mem, &op, &model, e, acc, &|sig, summary, what| Violation { property: "C12", signature: format!("embedded|{}", sig), summary, detail: what, order: 0 });
            }
            if op.is_observer() {
                // same outcome class and value as the physical view of the same folder
                let rp = exec(&pfs, &op);
                let same = match (&re, &rp) {
                    (Ok(Out::Walk(x)), Ok(Out::Walk(y))) => {
                        let sx: BTreeSet<_> = x.iter().map(|i| i.clone().map_err(|e| e.kind.class3())).collect();
                        let sy: BTreeSet<_> = y.iter().map(|i| i.clone().map_err(|e| e.kind.class3())).collect();
                        let ordered = x.iter().enumerate().all(|(i, it)| match it {
                            Ok(q) => {
                                let par = crate::model::parent_of(q);
                                par == *p || x[..i].iter().any(|e| e.as_ref().ok() == Some(&par))
                            }
                            Err(_) => true,
                        });
                        sx == sy && ordered
                    }
                    (Ok(x), Ok(y)) => x == y,
                    (Err(_), Err(_)) => true,
                    _ => false,
                };
                if !same {
                    acc.violate(Violation {
                        property: "C18",
                        signature: format!("op-differs|{}|{}|{}", op.name(), c.name(), name),
                        summary: format!("{}: EmbeddedFS => {} but PhysicalFS on the same folder => {}", op.render(), render_res(&re), render_res(&rp)),
                        detail: mk(J::Null),
                        order,
                    });
                }
            } else {
                // mutators: every one is refused; as NotSupported unless a check of the path layer itself (parent of a
                // create is not an existing directory, source of a file transfer cannot be opened, target of
                // remove_dir_all is a file) fails before the filesystem is asked
                let parent_is_dir = model.class(&crate::model::parent_of(p)).is_dir();
                let must_be_not_supported = match &op {
                    Op::RemoveFile(_) | Op::RemoveDir(_) | Op::AppendFile(..) | Op::SetTime(..) => true,
                    Op::CreateDir(_) | Op::CreateFile(..) => p.is_empty() || parent_is_dir,
                    Op::CreateDirAll(_) => !p.is_empty(),
                    Op::RemoveDirAll(_) => c.is_dir(),
                    Op::CopyFile(..) | Op::MoveFile(..) => c == crate::model::Class::File,
                    Op::CopyDir(..) | Op::MoveDir(..) => true,
                    _ => false,
                };
                let may_succeed = matches!(&op, Op::RemoveDirAll(_)) && !c.exists() || matches!(&op, Op::CreateDirAll(_)) && p.is_empty();
                let _ = model.expect(&op);
                match &re {
                    Ok(_) if may_succeed => {}
                    Ok(o) => acc.violate(Violation { property: "C18", signature: format!("mutator-ok|{}|{}", op.name(), c.name()), summary: format!("{} on the read-only EmbeddedFS returned Ok {}", op.render(), o.render()), detail: mk(J::Null), order }),
                    Err(e) => {
                        if must_be_not_supported && !may_succeed && e.kind != Kind::NotSupported {
                            acc.violate(Violation { property: "C18", signature: format!("mutator-kind|{}|{}|{}", op.name(), c.name(), e.kind.name()), summary: format!("{} is refused with {} instead of NotSupported: {}", op.render(), e.kind.name(), e.display), detail: mk(J::Null), order });
                        }
                    }
                }
            }
        }
    }
    let after = snapshot(&efs, &paths, 4096);
    let changed = diff_snaps(&before, &after);
    if let Some(d) = changed.first() {
        acc.violate(Violation { property: "C18", signature: format!("mutators-changed-view|{}", d.observer), summary: format!("after the refused mutators the view differs at {:?}: {} {} -> {}", d.path, d.observer, d.expected, d.got), detail: mk(J::Null), order });
    }
    // walk from every directory
    for p in all.iter().filter(|p| model.class(p).is_dir()) {
        let (we, wp) = (walk(&efs, p), walk(&pfs, p));
        let se: Option<BTreeSet<String>> = we.as_ref().ok().map(|v| v.iter().filter_map(|x| x.clone().ok()).collect());
        let sp: Option<BTreeSet<String>> = wp.as_ref().ok().map(|v| v.iter().filter_map(|x| x.clone().ok()).collect());
        if se != sp {
            acc.violate(Violation { property: "C18", signature: format!("walk-differs|{}", name), summary: format!("walk_dir({:?}) differs: embedded {:?} physical {:?}", p, se, sp), detail: mk(J::Null), order });
        }
        acc.count("walks_compared", 1);
    }
    acc.sample(if name == "embed_tree" { 0 } else if name == "generated" { 2 } else { 1 }, J::obj().set("fixture", J::s(name)).set("files", J::arr(files.iter().map(|(p, b)| J::s(format!("{} ({} bytes)", p, b.len()))))).set("paths_probed", J::i(paths.len() as u64 + 1)).set("some_paths", J::arr(paths.iter().take(25).map(J::s))));
}

pub fn run(a: &Args) -> Acc {
    let mut acc = Acc::new();
    run_fixture(a, "embed_tree", VfsPath::new(EmbeddedFS::<Fixture>::new()), concat!(env!("CARGO_MANIFEST_DIR"), "/fixtures/embed_tree"), &mut acc);
    run_fixture(a, "repo_test_directory", VfsPath::new(EmbeddedFS::<RepoFixture>::new()), "/repo/test/test_directory", &mut acc);
    acc.merge(par_run(a, "c18-generated", a.n(300, 6000), run_generated));
    acc
}
