//! C10, last clause: the markers the overlay keeps to remember deletions never appear as entries of the overlay's
//! own namespace — also when a caller addresses them by path — and no call made on such a path brings a removed
//! entry back.

use crate::cfg::{build, Cfg};
use crate::json::J;
use crate::model::Node;
use crate::ops::{exec, render_res, Op, WStep};
use crate::props::par_run;
use crate::report::{Acc, Violation};
use crate::rng::Rng;
use crate::snapshot::snapshot;
use crate::Args;
use std::collections::BTreeMap;

pub fn run_case(a: &Args, idx: u64, acc: &mut Acc) {
    let mut rng = Rng::derive(a.seed, "c10-bookkeeping", idx);
    let cfg = match rng.below(4) {
        0 | 1 => Cfg::Ovl(vec![(Cfg::Mem, "".into()), (Cfg::Mem, "/__lay1".into())]),
        2 => Cfg::Ovl(vec![(Cfg::Phys, "".into()), (Cfg::Mem, "".into())]),
        _ => Cfg::Ovl(vec![(Cfg::Mem, "".into()), (Cfg::Mem, "".into()), (Cfg::Mem, "".into())]),
    };
    let b = build(&cfg);
    let views = b.layer_views(0);
    let mut tree: BTreeMap<String, Node> = BTreeMap::new();
    tree.insert("/f".into(), Node::File(b"lower f".to_vec()));
    tree.insert("/d".into(), Node::Dir);
    tree.insert("/d/g".into(), Node::File(b"lower g".to_vec()));
    tree.insert("/d/e".into(), Node::Dir);
    tree.insert("/keep".into(), Node::File(b"kept".to_vec()));
    if crate::prepop::write_tree(&views[views.len() - 1].1, "", &tree).is_err() {
        acc.count("setup_failed", 1);
        return;
    }
    let mut trace: Vec<String> = vec![];
    // removals through the overlay (a random non-empty subset, in a valid order)
    let mut removed: Vec<String> = vec![];
    let mut removals: Vec<Op> = vec![];
    if rng.chance(2, 3) {
        removals.push(Op::RemoveFile("/f".into()));
        removed.push("/f".into());
    }
    match rng.below(3) {
        0 => {
            removals.push(Op::RemoveFile("/d/g".into()));
            removed.push("/d/g".into());
        }
        1 => {
            removals.push(Op::RemoveDirAll("/d".into()));
            removed.extend(["/d", "/d/g", "/d/e"].iter().map(|s| s.to_string()));
        }
        _ => {
            removals.push(Op::RemoveDir("/d/e".into()));
            removed.push("/d/e".into());
        }
    }
    for op in &removals {
        let r = exec(&b.root, op);
        trace.push(format!("{} => {}", op.render(), crate::ops::res_class(&r)));
        if r.is_err() {
            acc.count("setup_failed", 1);
            return;
        }
    }
    acc.evaluations += 1;
    let detail = |trace: &Vec<String>| J::obj().set("tag", J::s("c10-bookkeeping")).set("seed", J::i(a.seed)).set("history", J::i(idx)).set("config", J::s(cfg.desc())).set("trace", J::arr(trace.iter().map(J::s)));
    // candidate addresses of the bookkeeping, as a caller could spell them
    let mut addrs: Vec<String> = vec!["/.whiteout".into()];
    for r in &removed {
        addrs.push(format!("/.whiteout{}_wo", r));
        let par = crate::model::parent_of(r);
        if !par.is_empty() {
            addrs.push(format!("/.whiteout{}", par));
        }
    }
    // stray entries a caller could drop into the bookkeeping: names shorter than the marker suffix, multi-byte names
    addrs.push("/.whiteout/x".into());
    addrs.push("/.whiteout/\u{e9}".into());
    if removed.iter().any(|r| r.starts_with("/d/")) {
        addrs.push("/.whiteout/d/y".into());
    }
    addrs.sort();
    addrs.dedup();
    let mut probe: Vec<String> = tree.keys().cloned().collect();
    probe.extend(addrs.iter().cloned());
    probe.push("/moved".into());
    probe.push("/moved_dir".into());
    let check_hidden = |acc: &mut Acc, trace: &Vec<String>, after: &str, order: u64| -> bool {
        let snap = snapshot(&b.root, &probe, 4096);
        if let Some((m, p, e)) = snap.panics().first() {
            let pi = e.panic.clone().unwrap();
            acc.violate(Violation { property: "C13", signature: format!("panic|observer-after-bookkeeping-call:{}|{}|{}", m, pi.head(), pi.file()), summary: format!("{}({:?}) panicked after {}: {} at {}", m, p, after, pi.message, pi.location), detail: detail(trace), order });
            return false;
        }
        let got = snap.tree();
        // visibility is reported once per address kind and does not end the case: the calls below matter more
        for ad in &addrs {
            if got.m.contains_key(ad) {
                acc.violate(Violation { property: "C10", signature: format!("bookkeeping-visible|{}|{}", if ad == "/.whiteout" { "marker-root" } else if ad.ends_with("_wo") { "marker" } else { "marker-dir" }, cfg.family()), summary: format!("the overlay's deletion bookkeeping is observable at {:?} (exists / metadata / listing / read) after {}", ad, after), detail: detail(trace), order });
            }
        }
        for r in &removed {
            if got.m.contains_key(r) {
                acc.violate(Violation { property: "C10", signature: format!("bookkeeping-tampered|removed-entry-back|after:{}|{}", after, cfg.family()), summary: format!("{:?} was removed through the overlay and is visible again after {}", r, after), detail: detail(trace), order });
                return false;
            }
        }
        if !got.m.contains_key("/keep") {
            acc.violate(Violation { property: "C10", signature: format!("bookkeeping-tampered|bystander-lost|after:{}|{}", after, cfg.family()), summary: format!("/keep vanished after {}", after), detail: detail(trace), order });
            return false;
        }
        true
    };
    if !check_hidden(acc, &trace, "removals", idx * 100) {
        return;
    }
    // calls made ON the bookkeeping addresses: whatever they answer, nothing removed may come back and the
    // bookkeeping must stay out of sight
    for step in 0..rng.range(2, 6) {
        let ad = rng.pick(&addrs).clone();
        let op = match rng.below(10) {
            0 => Op::RemoveDirAll(ad),
            1 => Op::RemoveFile(ad),
            2 => Op::RemoveDir(ad),
            3 => Op::CreateFile(ad, vec![WStep::Write(b"user data".to_vec())]),
            4 => Op::CreateDir(ad),
            5 => Op::AppendFile(ad, vec![WStep::Write(b"+".to_vec())]),
            6 => Op::MoveFile(ad, "/moved".into()),
            7 => Op::CopyFile("/keep".into(), ad),
            8 => Op::MoveDir(ad, "/moved_dir".into()),
            _ => Op::CreateDirAll(format!("{}/x", ad)),
        };
        let r = exec(&b.root, &op);
        trace.push(format!("{} => {}", op.render(), render_res(&r).chars().take(120).collect::<String>()));
        acc.steps += 1;
        acc.cell(format!("bookkeeping|{}|{}|{}", op.name(), if r.is_ok() { "Ok" } else { "Err" }, cfg.family()));
        if let Err(e) = &r {
            if let Some(p) = &e.panic {
                acc.violate(Violation { property: "C13", signature: format!("panic|bookkeeping-address:{}|{}|{}", op.name(), p.head(), p.file()), summary: format!("{} panicked: {}", op.render(), p.message), detail: detail(&trace), order: idx * 100 + step as u64 + 1 });
                return;
            }
        }
        if !check_hidden(acc, &trace, op.name(), idx * 100 + step as u64 + 1) {
            return;
        }
    }
    acc.fingerprints.insert(Rng::derive(idx % 9973, &trace.join(";"), 0).0);
    if idx < 2 {
        acc.sample(7000 + idx, J::obj().set("bookkeeping_case", J::i(idx)).set("config", J::s(cfg.desc())).set("trace", J::arr(trace.iter().map(J::s))));
    }
    acc.count("bookkeeping_cases", 1);
}

pub fn run(a: &Args) -> Acc {
    par_run(a, "c10-bookkeeping", a.n(1500, 20000), run_case)
}
