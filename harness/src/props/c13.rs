//! C13 — no operation panics: dedicated hostile workloads (the generic ones are re-used from the other runners).

use crate::cfg::{build, new_scratch_dir};
use crate::gen::{gen_rscript_extreme, EXTREME_OFFSETS};
use crate::json::J;
use crate::ops::{at, exec, seek_from, Op, TimeField, WStep};
use crate::panicmon::guard;
use crate::props::c14::cfg_for_handles;
use crate::props::par_run;
use crate::report::{Acc, Violation};
use crate::rng::Rng;
use crate::Args;
use std::io::{Read, Seek, Write};
use vfs::{PhysicalFS, VfsPath};

fn report(acc: &mut Acc, what: &str, family: &str, p: &crate::panicmon::PanicInfo, detail: J, order: u64) {
    acc.violate(Violation {
        property: "C13",
        signature: format!("panic|{}|{}|{}|{}", what, family, p.head(), p.file()),
        summary: format!("{} panicked: {} at {}", what, p.message, p.location),
        detail,
        order,
    });
}

/// Handles used after their file (and its parent directory) was removed / replaced.
pub fn stale_handle_case(a: &Args, idx: u64, acc: &mut Acc) {
    let mut rng = Rng::derive(a.seed, "c13-stale", idx);
    let cfg = cfg_for_handles(&mut rng);
    let b = build(&cfg);
    let root = b.root.clone();
    let fam = cfg.family();
    let mut log: Vec<String> = vec![];
    acc.evaluations += 1;
    let r = guard(|| {
        let d = at(&root, "/d");
        let f = at(&root, "/d/f");
        let _ = d.create_dir();
        let len = *rng.pick(&[0usize, 1, 7, 9000]);
        if let Ok(mut w) = f.create_file() {
            let _ = w.write_all(&rng.bytes(len, false));
        }
        let mut reader = f.open_file().ok();
        let mut writer = if rng.chance(1, 2) { f.append_file().ok() } else { f.create_file().ok() };
        // now pull the rug
        match rng.below(5) {
            0 => {
                let _ = f.remove_file();
                log.push("remove_file(/d/f)".into());
            }
            1 => {
                let _ = d.remove_dir_all();
                log.push("remove_dir_all(/d)".into());
            }
            2 => {
                let _ = f.remove_file();
                let _ = f.create_dir();
                log.push("remove_file(/d/f); create_dir(/d/f)".into());
            }
            3 => {
                let _ = f.move_file(&at(&root, "/moved"));
                log.push("move_file(/d/f -> /moved)".into());
            }
            _ => {
                let _ = d.move_dir(&at(&root, "/dmoved"));
                log.push("move_dir(/d -> /dmoved)".into());
            }
        }
        if let Some(r) = reader.as_mut() {
            for _ in 0..rng.range(1, 6) {
                match rng.below(3) {
                    0 => {
                        let mut buf = vec![0u8; *rng.pick(&[0usize, 1, 7, 10000])];
                        let _ = r.read(&mut buf);
                    }
                    1 => {
                        let _ = r.seek(seek_from(rng.below(3) as u8, *rng.pick(EXTREME_OFFSETS)));
                    }
                    _ => {
                        let mut v = vec![];
                        let _ = r.read_to_end(&mut v);
                    }
                }
            }
            log.push("reader used after removal".into());
        }
        if let Some(w) = writer.as_mut() {
            for _ in 0..rng.range(1, 5) {
                match rng.below(3) {
                    0 => {
                        let wl = [0usize, 1, 300][rng.below(3)];
                        let _ = w.write(&rng.bytes(wl, false));
                    }
                    1 => {
                        // no huge positive offsets on in-memory writers: writing there is an allocation failure (abort) in std's own Cursor, not a library panic
                        let whence = rng.below(3) as u8;
                        let off = if whence == 0 { *rng.pick(&[0i64, 1, 7, 5000]) } else { *rng.pick(&[-5i64, -1, 0, 1, 7, 5000, i64::MIN, -9000]) };
                        let _ = w.seek(seek_from(whence, off));
                    }
                    _ => {
                        let _ = w.flush();
                    }
                }
            }
            log.push("writer used after removal".into());
        }
        drop(writer);
        drop(reader);
        // the filesystem must still answer
        let _ = root.read_dir().map(|i| i.count());
        let _ = root.walk_dir().map(|i| i.count());
    });
    acc.steps += 1;
    acc.fingerprints.insert(Rng::derive(idx % 997, &fam, log.len() as u64).0);
    if let Err(p) = r {
        report(acc, "stale-handle-scenario", &fam, &p, J::obj().set("tag", J::s("c13-stale")).set("seed", J::i(a.seed)).set("history", J::i(idx)).set("config", J::s(cfg.desc())).set("log", J::arr(log.iter().map(J::s))), idx);
    }
    if idx < 2 {
        acc.sample(idx, J::obj().set("stale_handle_case", J::i(idx)).set("config", J::s(cfg.desc())).set("log", J::arr(log.iter().map(J::s))));
    }
}

/// PhysicalFS over a directory prepared with std::fs: non-UTF-8 names, dangling symlinks, symlink loops.
pub fn hostile_dir_case(a: &Args, idx: u64, acc: &mut Acc) {
    use std::os::unix::ffi::OsStrExt;
    let mut rng = Rng::derive(a.seed, "c13-hostile-dir", idx);
    let d = new_scratch_dir();
    let root_dir = d.join("root");
    std::fs::create_dir_all(root_dir.join("sub")).unwrap();
    std::fs::write(root_dir.join("plain.txt"), b"plain").unwrap();
    let mut prepared = vec![];
    let place = |rng: &mut Rng| if rng.chance(1, 2) { root_dir.clone() } else { root_dir.join("sub") };
    if rng.chance(3, 4) {
        let p = place(&mut rng).join(std::ffi::OsStr::from_bytes(b"bad\xff\xfename"));
        let _ = std::fs::write(&p, b"x");
        prepared.push("non-UTF-8 file name");
    }
    if rng.chance(1, 2) {
        let p = place(&mut rng).join(std::ffi::OsStr::from_bytes(b"\xc3\x28dir"));
        let _ = std::fs::create_dir(&p);
        prepared.push("non-UTF-8 directory name");
    }
    if rng.chance(3, 4) {
        let _ = std::os::unix::fs::symlink("/nonexistent/target", place(&mut rng).join("dangling"));
        prepared.push("dangling symlink 'dangling'");
    }
    if rng.chance(1, 2) {
        let dir = place(&mut rng);
        let _ = std::os::unix::fs::symlink("loop_b", dir.join("loop_a"));
        let _ = std::os::unix::fs::symlink("loop_a", dir.join("loop_b"));
        prepared.push("symlink loop loop_a <-> loop_b");
    }
    if rng.chance(1, 3) {
        let _ = std::os::unix::fs::symlink(".", place(&mut rng).join("self"));
        prepared.push("symlink to '.'");
    }
    if rng.chance(1, 2) {
        let _ = std::os::unix::fs::symlink("sub", root_dir.join("link_to_dir"));
        prepared.push("symlink 'link_to_dir' -> directory 'sub'");
    }
    if rng.chance(1, 2) {
        let _ = std::os::unix::fs::symlink("plain.txt", root_dir.join("link_to_file"));
        prepared.push("symlink 'link_to_file' -> file 'plain.txt'");
    }
    let root = VfsPath::new(PhysicalFS::new(&root_dir));
    // half of the cases drive the async port over the same prepared directory (its walk_dir stream, metadata and
    // read_dir paths meet the same dangling links and undecodable names)
    let use_async = rng.chance(1, 2);
    let aroot = vfs::async_vfs::AsyncVfsPath::new(vfs::async_vfs::AsyncPhysicalFS::new(&root_dir));
    if use_async {
        prepared.push("driven through AsyncPhysicalFS");
    }
    acc.evaluations += 1;
    let targets = ["", "/sub", "/dangling", "/sub/dangling", "/loop_a", "/sub/loop_a", "/plain.txt", "/self", "/dangling/x", "/loop_a/x", "/new", "/link_to_dir", "/link_to_file", "/link_to_dir/x"];
    let mut log = vec![];
    for _ in 0..rng.range(6, 20) {
        let t = rng.pick(&targets).to_string();
        let t2 = rng.pick(&targets).to_string();
        let op = match rng.below(20) {
            0 => Op::CreateDir(t),
            1 => Op::CreateFile(t, vec![WStep::Write(b"zz".to_vec())]),
            2 => Op::AppendFile(t, vec![WStep::Write(b"zz".to_vec())]),
            3 => Op::RemoveFile(t),
            4 => Op::RemoveDir(t),
            5 => Op::OpenRead(t, gen_rscript_extreme(&mut rng)),
            6 | 7 => Op::ReadDir(t),
            8 => Op::Metadata(t),
            9 => Op::Exists(t),
            10 => Op::IsFile(t),
            11 => Op::IsDir(t),
            12 => Op::CreateDirAll(t),
            13 => Op::CopyFile(t, t2),
            14 => Op::MoveFile(t, t2),
            15 if !crate::model::is_under(&t2, &t) && t != t2 && !t.is_empty() => Op::CopyDir(t, t2),
            16 => Op::ReadToString(t),
            17 | 18 => Op::WalkDir(t),
            _ => Op::SetTime(t, TimeField::Modified, 1, 1),
        };
        // documented non-termination (loops in the hierarchy): walk over a self-link is bounded by the executor's item cap
        // C12 on disk contents the path API did not create: an occupied create_dir target is classified by what
        // metadata() reports for it (a symlink to a directory IS a directory for every other observer)
        let occupant = if let Op::CreateDir(p) = &op { at(&root, p).metadata().ok().map(|m| m.file_type) } else { None };
        let r = if use_async { crate::asyncside::aexec(&aroot, &op) } else { exec(&root, &op) };
        if let (Some(ft), Err(e)) = (occupant, &r) {
            let want = if ft == vfs::VfsFileType::Directory { crate::ops::Kind::DirExists } else { crate::ops::Kind::FileExists };
            acc.count("occupied_create_dir_on_prepared_directory", 1);
            if e.panic.is_none() && e.kind != want && !op.path().is_empty() {
                acc.violate(Violation {
                    property: "C12",
                    signature: format!("kind|create_dir|occupied-by-{}|want:{}|got:{}|phys-prepared-dir", if ft == vfs::VfsFileType::Directory { "dir" } else { "file" }, want.name(), e.kind.name()),
                    summary: format!("{} on a path that metadata() reports as {:?} fails with {} instead of {}: {}", op.render(), ft, e.kind.name(), want.name(), e.display),
                    detail: J::obj().set("tag", J::s("c13-hostile-dir")).set("seed", J::i(a.seed)).set("history", J::i(idx)).set("prepared", J::arr(prepared.iter().map(J::s))).set("log", J::arr(log.iter().map(J::s))),
                    order: idx,
                });
            }
        }
        log.push(format!("{} => {}", op.render(), crate::ops::res_class(&r)));
        acc.steps += 1;
        if let Err(e) = &r {
            if let Some(p) = &e.panic {
                report(acc, &format!("{}physical-hostile-dir:{}", if use_async { "async-" } else { "" }, op.name()), "phys", p, J::obj().set("tag", J::s("c13-hostile-dir")).set("seed", J::i(a.seed)).set("history", J::i(idx)).set("prepared", J::arr(prepared.iter().map(J::s))).set("log", J::arr(log.iter().map(J::s))), idx);
                break;
            }
        }
    }
    acc.fingerprints.insert(Rng::derive(idx % 4093, &prepared.join(","), 1).0);
    if idx < 2 {
        acc.sample(idx, J::obj().set("hostile_dir_case", J::i(idx)).set("prepared", J::arr(prepared.iter().map(J::s))).set("log", J::arr(log.iter().map(J::s))));
    }
    let _ = std::fs::remove_dir_all(&d);
}

pub fn run_dedicated(a: &Args) -> Acc {
    let mut acc = par_run(a, "c13-stale", a.n(3000, 30000), stale_handle_case);
    acc.merge(par_run(a, "c13-hostile-dir", a.n(1500, 15000), hostile_dir_case));
    acc
}
