//! C05, walk_dir with bystanders: a directory that the walk has already yielded is removed before the walk descends
//! into it; every entry OUTSIDE that directory exists during the whole walk and must still be yielded exactly once,
//! after its parent (sibling names are string extensions of the vanished directory's name on purpose).

use crate::cfg::{build, Cfg};
use crate::gen::FAMILIES;
use crate::json::J;
use crate::model::{is_under, parent_of, Node};
use crate::ops::at;
use crate::panicmon::guard;
use crate::props::par_run;
use crate::report::{Acc, Violation};
use crate::rng::Rng;
use crate::Args;
use std::collections::BTreeMap;

pub fn run_case(a: &Args, idx: u64, acc: &mut Acc) {
    let mut rng = Rng::derive(a.seed, "c05-walk-bystanders", idx);
    let cfg = match rng.below(5) {
        0 | 1 => Cfg::Mem,
        2 => Cfg::Alt(Box::new(Cfg::Mem), "/__alt/p".into()),
        3 => Cfg::Ovl(vec![(Cfg::Mem, "".into()), (Cfg::Mem, "/__lay1".into())]),
        _ => Cfg::Phys,
    };
    let (base, ext) = *rng.pick(FAMILIES);
    let third = *rng.pick(&["b", "é", "zz"]);
    let names = [base, ext, third];
    // a small tree: every top-level name is a directory with 0-2 children, some of them directories with a child
    let mut tree: BTreeMap<String, Node> = BTreeMap::new();
    for n in names {
        let d = format!("/{}", n);
        tree.insert(d.clone(), Node::Dir);
        for m in names {
            if rng.chance(1, 2) {
                let c = format!("{}/{}", d, m);
                if rng.chance(1, 3) {
                    tree.insert(c.clone(), Node::Dir);
                    tree.insert(format!("{}/leaf", c), Node::File(b"x".to_vec()));
                } else {
                    tree.insert(c, Node::File(b"y".to_vec()));
                }
            }
        }
    }
    let b = build(&cfg);
    if crate::prepop::write_tree(&b.root, "", &tree).is_err() {
        acc.count("setup_failed", 1);
        return;
    }
    let victim = format!("/{}", rng.pick(&names));
    acc.evaluations += 1;
    let root = b.root.clone();
    let res = guard(|| -> Result<(Vec<String>, usize), String> {
        let mut it = root.walk_dir().map_err(|e| e.to_string())?;
        let mut seen = vec![];
        let mut errs = 0usize;
        let mut removed = false;
        let mut n = 0;
        while let Some(item) = it.next() {
            n += 1;
            if n > 500 {
                return Err("walk does not terminate".into());
            }
            match item {
                Ok(p) => {
                    let s = p.as_str().to_string();
                    if s == victim && !removed {
                        removed = true;
                        at(&root, &victim).remove_dir_all().map_err(|e| format!("remove_dir_all({}): {}", victim, e))?;
                    }
                    seen.push(s);
                }
                Err(_) => errs += 1,
            }
        }
        Ok((seen, errs))
    });
    let detail = || J::obj().set("tag", J::s("c05-walk-bystanders")).set("seed", J::i(a.seed)).set("history", J::i(idx)).set("config", J::s(cfg.desc())).set("tree", J::arr(tree.keys().map(J::s))).set("removed_when_yielded", J::s(&victim));
    acc.steps += 1;
    acc.fingerprints.insert(Rng::derive(idx % 7919, &format!("{:?}{}", tree.keys().collect::<Vec<_>>(), victim), cfg.shape().len() as u64).0);
    match res {
        Err(p) => acc.violate(Violation { property: "C13", signature: format!("panic|walk-with-bystanders|{}|{}|{}", cfg.family(), p.head(), p.file()), summary: format!("walk_dir panicked: {} at {}", p.message, p.location), detail: detail(), order: idx }),
        Ok(Err(e)) => {
            acc.count("walks_ended_by_harness_error", 1);
            acc.note("walk_bystander_errors", e);
        }
        Ok(Ok((seen, _errs))) => {
            for p in tree.keys().filter(|p| **p != victim && !is_under(p, &victim)) {
                let k = seen.iter().filter(|s| *s == p).count();
                if k != 1 {
                    acc.violate(Violation { property: "C05", signature: format!("walk-bystander|yielded{}|{}|{}", if k == 0 { "0" } else { "2+" }, if p.starts_with(&victim) { "name-extends-removed-dir" } else { "unrelated-name" }, cfg.family()), summary: format!("{:?} exists during the whole walk but was yielded {} times after {:?} was removed when the walk yielded it (yielded: {:?})", p, k, victim, seen), detail: detail(), order: idx });
                    return;
                }
                let par = parent_of(p);
                if !par.is_empty() {
                    let (ip, ic) = (seen.iter().position(|s| s == &par), seen.iter().position(|s| s == p));
                    if ip.is_none() || ip > ic {
                        acc.violate(Violation { property: "C05", signature: format!("walk-bystander|child-before-parent|{}", cfg.family()), summary: format!("{:?} was yielded before its directory {:?}", p, par), detail: detail(), order: idx });
                        return;
                    }
                }
            }
            acc.count("walks_with_bystanders", 1);
        }
    }
}

pub fn run(a: &Args) -> Acc {
    par_run(a, "c05-walk-bystanders", a.n(3000, 40000), run_case)
}
