//! C11 — recursive and transfer operations are exact, within and across filesystems.
//! Pair model: the trees of source filesystem A and destination filesystem B are kept in one `Model` under the
//! virtual prefixes /@A and /@B (B = A for the same-instance routes), so the C01 model decides every case.

use crate::cfg::{build, Built, Cfg};
use crate::gen::NAMES;
use crate::json::{bytes_repr, J};
use crate::model::{ancestors, is_under, Exp, Model, Node};
use crate::monfs::Event;
use crate::ops::{at, ErrInfo, Kind, Op, Out, Res};
use crate::panicmon::guard;
use crate::props::par_run;
use crate::report::{Acc, Violation};
use crate::rng::Rng;
use crate::snapshot::{snapshot, Snap};
use crate::Args;
use std::collections::{BTreeMap, BTreeSet};

fn side_cfg(rng: &mut Rng) -> Cfg {
    match rng.below(7) {
        0 | 1 => Cfg::Mem,
        2 | 3 => Cfg::Phys,
        4 => Cfg::Alt(Box::new(Cfg::Mem), "/__alt/p".into()),
        5 => Cfg::Alt(Box::new(Cfg::Phys), "/__alt".into()),
        _ => Cfg::Ovl(vec![(if rng.chance(1, 2) { Cfg::Mem } else { Cfg::Phys }, "".into()), (Cfg::Mem, "/__lay1".into())]),
    }
}

fn gen_tree(rng: &mut Rng, names: &[&str], max_entries: usize) -> BTreeMap<String, Node> {
    let mut t: BTreeMap<String, Node> = BTreeMap::new();
    let n = rng.range(1, max_entries);
    for _ in 0..n {
        let depth = rng.range(1, 4);
        let mut p = String::new();
        for d in 0..depth {
            p = format!("{}/{}", p, rng.pick(names));
            if d + 1 < depth {
                if let Some(Node::File(_)) = t.get(&p) {
                    break;
                }
                t.entry(p.clone()).or_insert(Node::Dir);
            } else if !t.contains_key(&p) {
                let node = if rng.chance(2, 5) {
                    Node::Dir
                } else {
                    let len = *rng.pick(&[0usize, 1, 300, 8191, 8192, 8193, 20000, 70001]);
                    Node::File(rng.bytes(len, false))
                };
                t.insert(p.clone(), node);
            }
        }
    }
    // drop entries below files (can happen when a deeper path was inserted before its parent became a file)
    let keys: Vec<String> = t.keys().cloned().collect();
    for k in keys {
        if ancestors(&k).iter().any(|a| matches!(t.get(a), Some(Node::File(_)))) {
            t.remove(&k);
        }
    }
    t
}

fn populate(b: &Built, tree: &BTreeMap<String, Node>, rng: &mut Rng) -> Result<(), String> {
    // overlays: whole top-level subtrees go to the lower layer now and then
    let mut lower: BTreeMap<String, Node> = BTreeMap::new();
    let mut upper: BTreeMap<String, Node> = BTreeMap::new();
    let views = if let Cfg::Ovl(_) = &b.cfg { b.layer_views(0) } else { vec![] };
    let mut tops: BTreeMap<String, bool> = BTreeMap::new();
    for (p, n) in tree {
        let top = format!("/{}", p[1..].split('/').next().unwrap());
        let to_lower = views.len() >= 2 && *tops.entry(top).or_insert_with(|| rng.chance(1, 2));
        if to_lower { &mut lower } else { &mut upper }.insert(p.clone(), n.clone());
    }
    if !lower.is_empty() {
        crate::prepop::write_tree(&views[1].1, "", &lower)?;
    }
    crate::prepop::write_tree(&b.root, "", &upper)
}

fn combined(a: &Snap, b: Option<&Snap>) -> Model {
    let mut m = Model::new();
    for (prefix, s) in [("/@A", Some(a)), ("/@B", b)] {
        if let Some(s) = s {
            for (k, n) in s.tree().m {
                m.m.insert(format!("{}{}", prefix, k), n);
            }
        }
    }
    m
}

fn exec2(ra: &vfs::VfsPath, rb: &vfs::VfsPath, op: &Op) -> Res {
    fn side<'x>(ra: &'x vfs::VfsPath, rb: &'x vfs::VfsPath, p: &str) -> vfs::VfsPath {
        let (root, rest) = if let Some(r) = p.strip_prefix("/@A") { (ra, r) } else { (rb, p.strip_prefix("/@B").unwrap()) };
        at(root, rest)
    }
    let r = guard(|| -> Result<Out, vfs::VfsError> {
        Ok(match op {
            Op::CreateDirAll(p) => {
                side(ra, rb, p).create_dir_all()?;
                Out::Unit
            }
            Op::RemoveDirAll(p) => {
                side(ra, rb, p).remove_dir_all()?;
                Out::Unit
            }
            Op::CopyFile(s, d) => {
                side(ra, rb, s).copy_file(&side(ra, rb, d))?;
                Out::Unit
            }
            Op::MoveFile(s, d) => {
                side(ra, rb, s).move_file(&side(ra, rb, d))?;
                Out::Unit
            }
            Op::CopyDir(s, d) => Out::Count(side(ra, rb, s).copy_dir(&side(ra, rb, d))?),
            Op::MoveDir(s, d) => {
                side(ra, rb, s).move_dir(&side(ra, rb, d))?;
                Out::Unit
            }
            _ => unreachable!(),
        })
    });
    match r {
        Ok(Ok(o)) => Ok(o),
        Ok(Err(e)) => Err(ErrInfo::from_vfs(&e)),
        Err(p) => Err(ErrInfo::from_panic(p)),
    }
}

fn route_of(op: &Op, same_instance: bool, events: &[Event]) -> String {
    let fast = match op {
        Op::CopyFile(..) => "copy_file",
        Op::MoveFile(..) => "move_file",
        Op::MoveDir(..) => "move_dir",
        _ => return format!("{}:generic", op.name()),
    };
    if !same_instance {
        return format!("{}:cross-instance-stream", op.name());
    }
    // the top-level wrapper (node 0) sees the optional method first
    match events.iter().find(|e| e.node == 0 && e.method == fast) {
        Some(e) if e.ok => format!("{}:fast-path", op.name()),
        Some(e) if e.kind == Some(Kind::NotSupported) => format!("{}:fallback-after-NotSupported", op.name()),
        Some(_) => format!("{}:fast-path-error", op.name()),
        None => format!("{}:guard-refused-before-route", op.name()),
    }
}

pub fn run_case(a: &Args, tag: &'static str, idx: u64, acc: &mut Acc) {
    let mut rng = Rng::derive(a.seed, tag, idx);
    let mut pool: Vec<&'static str> = NAMES.to_vec();
    rng.shuffle(&mut pool);
    // two cases in three: two of the three names are string extensions of one another (`a` / `a.b`), so that
    // siblings, sources and destinations whose path text merely starts with another entry's path are common
    use crate::gen::FAMILIES;
    if rng.chance(2, 3) {
        let (base, ext) = *rng.pick(FAMILIES);
        pool.retain(|n| *n != base && *n != ext);
        pool.insert(0, base);
        pool.insert(1, ext);
    }
    let names = &pool[..3];
    let cfg_a = side_cfg(&mut rng);
    let pairing = rng.below(3); // 0 same instance, 1 twin instance of the same config, 2 other config
    let cfg_b = match pairing {
        2 => side_cfg(&mut rng),
        _ => cfg_a.clone(),
    };
    let ba = build(&cfg_a);
    let bb_owned = if pairing == 0 { None } else { Some(build(&cfg_b)) };
    let same = bb_owned.is_none();
    let tree_a = gen_tree(&mut rng, names, 12);
    let tree_b = if same { BTreeMap::new() } else { gen_tree(&mut rng, names, 5) };
    if populate(&ba, &tree_a, &mut rng).is_err() || bb_owned.as_ref().map(|b| populate(b, &tree_b, &mut rng).is_err()).unwrap_or(false) {
        acc.count("setup_failed", 1);
        return;
    }
    let root_a = ba.root.clone();
    let root_b = bb_owned.as_ref().map(|b| b.root.clone()).unwrap_or_else(|| ba.root.clone());
    let bpre = if same { "/@A" } else { "/@B" };
    // probe set: everything in the trees + candidate destinations
    let mut probe: BTreeSet<String> = BTreeSet::new();
    for k in tree_a.keys().chain(tree_b.keys()) {
        probe.insert(k.clone());
    }
    for n in names {
        probe.insert(format!("/{}", n));
        for m in names {
            probe.insert(format!("/{}/{}", n, m));
        }
    }
    probe.insert("/dst".into());
    probe.insert("/dst/in".into());
    probe.insert("/nodir/dst".into());
    let mut probe: Vec<String> = probe.into_iter().collect();
    let mut trace: Vec<String> = vec![];
    acc.evaluations += 1;
    let pair_name = format!("{}→{}:{}", cfg_a.shape(), cfg_b.shape(), ["same-instance", "twin-instance", "other-backend"][pairing]);
    let nops = rng.range(1, 4);
    // names freed by an earlier successful removal / move of this case: re-used as destinations now and then (on an
    // overlay such a name carries a deletion marker)
    let mut freed: Vec<String> = vec![];
    for step in 0..nops {
        let sa = snapshot(&root_a, &probe, 8192);
        let sb = if same { None } else { Some(snapshot(&root_b, &probe, 8192)) };
        let model = combined(&sa, sb.as_ref());
        // --- choose the operation
        let a_paths: Vec<String> = model.m.keys().filter(|k| k.starts_with("/@A")).cloned().collect();
        let pick_src = |rng: &mut Rng, want_dir: Option<bool>| -> String {
            let cands: Vec<&String> = a_paths
                .iter()
                .filter(|k| match (want_dir, model.m.get(*k)) {
                    (Some(true), Some(Node::Dir)) => true,
                    (Some(false), Some(Node::File(_))) => true,
                    (None, _) => true,
                    _ => false,
                })
                .collect();
            if cands.is_empty() || rng.chance(1, 8) {
                format!("/@A/{}/nonexistent", rng.pick(names))
            } else {
                (*rng.pick(&cands)).clone()
            }
        };
        let pick_dst = |rng: &mut Rng| -> String {
            let in_b: Vec<&String> = model.m.keys().filter(|k| k.starts_with(bpre)).collect();
            if same && !freed.is_empty() && rng.chance(1, 3) {
                return rng.pick(&freed).clone();
            }
            match rng.below(8) {
                0 => (*rng.pick(&in_b)).clone(),                       // existing entry (refusal)
                1 => format!("{}/nodir/dst", bpre),                    // missing parent
                2 => {
                    // below a file
                    let files: Vec<&&String> = in_b.iter().filter(|k| matches!(model.m.get(**k), Some(Node::File(_)))).collect();
                    if files.is_empty() { format!("{}/dst", bpre) } else { format!("{}/in", rng.pick(&files)) }
                }
                3 => bpre.to_string(),                                  // the root itself
                _ => {
                    // free name in an existing directory
                    let dirs: Vec<&&String> = in_b.iter().filter(|k| matches!(model.m.get(**k), Some(Node::Dir))).collect();
                    format!("{}/{}", rng.pick(&dirs), if rng.chance(1, 2) { "dst" } else { *rng.pick(names) })
                }
            }
        };
        let op = match rng.below(12) {
            0 | 1 => Op::CopyFile(pick_src(&mut rng, Some(false)), pick_dst(&mut rng)),
            2 | 3 => Op::MoveFile(pick_src(&mut rng, Some(false)), pick_dst(&mut rng)),
            4 | 5 | 6 => Op::CopyDir(pick_src(&mut rng, Some(true)), pick_dst(&mut rng)),
            7 | 8 => Op::MoveDir(pick_src(&mut rng, Some(true)), pick_dst(&mut rng)),
            9 => {
                let base = pick_src(&mut rng, None);
                Op::CreateDirAll(format!("{}/{}/{}", base, rng.pick(names), rng.pick(names)))
            }
            _ => Op::RemoveDirAll(pick_src(&mut rng, None)),
        };
        // exclusions of the property: destination inside the source subtree, wrong-typed sources, removing a root
        let exp = model.expect(&op);
        let touches_root = matches!(&op, Op::MoveDir(s, _) | Op::RemoveDirAll(s) if s == "/@A" || s == "/@B");
        if exp == Exp::Unspec || touches_root {
            continue;
        }
        for p in [Some(op.path()), op.dest()].into_iter().flatten() {
            let rest = p.strip_prefix("/@A").or_else(|| p.strip_prefix("/@B")).unwrap_or("").to_string();
            if !rest.is_empty() && !probe.contains(&rest) {
                probe.push(rest.clone());
                // descendants that a copy will create
            }
        }
        if let (Op::CopyDir(s, d), _) | (Op::MoveDir(s, d), _) = (&op, 0) {
            for k in model.descendants(s) {
                let nd = format!("{}{}", d, &k[s.len()..]);
                probe.push(nd.strip_prefix("/@A").or_else(|| nd.strip_prefix("/@B")).unwrap().to_string());
            }
        }
        // re-take the pre-snapshots with the enlarged probe set so that before/after are comparable
        let sa = snapshot(&root_a, &probe, 8192);
        let sb = if same { None } else { Some(snapshot(&root_b, &probe, 8192)) };
        let mut model = combined(&sa, sb.as_ref());
        let pre = model.clone();
        let sclass = model.class(op.path());
        let dclass = op.dest().map(|d| model.class(d));
        let clsig = match dclass { Some(d) => format!("{}->{}", sclass.name(), d.name()), None => sclass.name().to_string() };

        ba.ctl.start_recording();
        let res = exec2(&root_a, &root_b, &op);
        let events = ba.ctl.stop_recording();
        let route = route_of(&op, same, &events);
        if res.is_ok() {
            if let Op::RemoveDirAll(p) | Op::MoveDir(p, _) | Op::MoveFile(p, _) = &op {
                freed.push(p.clone());
            }
        }
        acc.note("routes", route.clone());
        acc.cell(format!("{}|{}|{}|{}", route, clsig, if res.is_ok() { "Ok" } else { "Err" }, ["same", "twin", "other"][pairing]));
        acc.steps += 1;
        let ta = snapshot(&root_a, &probe, *rng.pick(&[1usize, 7, 8192, 8193]));
        let tb = if same { None } else { Some(snapshot(&root_b, &probe, 8192)) };
        let got = combined(&ta, tb.as_ref());
        acc.fingerprints.insert(ta.fingerprint() ^ tb.as_ref().map(|s| s.fingerprint()).unwrap_or(0) ^ Rng::derive(0, &pair_name, 0).0);
        trace.push(format!("{}. {} [{}] route={} => {}", step + 1, op.render(), clsig, route, crate::ops::render_res(&res)));
        if a.only.is_some() {
            eprintln!("{}", trace.last().unwrap());
        }
        let order = idx * 10 + step as u64;
        let detail = |what: J| {
            J::obj().set("tag", J::s(tag)).set("seed", J::i(a.seed)).set("history", J::i(idx)).set("pair", J::s(&pair_name)).set("config_a", J::s(cfg_a.desc())).set("config_b", J::s(cfg_b.desc()))
                .set("tree_a", J::arr(tree_a.iter().map(|(p, n)| J::s(match n { Node::Dir => format!("{}/", p), Node::File(b) => format!("{}={}", p, bytes_repr(b)) }))))
                .set("tree_b", J::arr(tree_b.iter().map(|(p, n)| J::s(match n { Node::Dir => format!("{}/", p), Node::File(b) => format!("{}={}", p, bytes_repr(b)) }))))
                .set("trace", J::arr(trace.iter().map(J::s))).set("what", what)
        };
        let sig = |rule: &str, tail: String| format!("{}|{}|{}|{}|{}", rule, op.name(), clsig, tail, route.split(':').nth(1).unwrap_or("-"));
        if let Err(e) = &res {
            if let Some(p) = &e.panic {
                acc.violate(Violation { property: "C13", signature: format!("panic|{}|{}|{}|{}", op.name(), clsig, p.head(), p.file()), summary: format!("{} panicked: {}", op.render(), p.message), detail: detail(J::Null), order });
                return;
            }
            // C12: label must be the source, the destination or an ancestor/descendant of either (in its own namespace)
            let strip = |p: &str| p.strip_prefix("/@A").or_else(|| p.strip_prefix("/@B")).unwrap_or(p).to_string();
            let mut o2 = op.clone();
            match &mut o2 {
                Op::CreateDirAll(p) | Op::RemoveDirAll(p) => *p = strip(p),
                Op::CopyFile(s, d) | Op::MoveFile(s, d) | Op::CopyDir(s, d) | Op::MoveDir(s, d) => {
                    *s = strip(s);
                    *d = strip(d);
                }
                _ => {}
            }
            if same {
                let mut pre_a = Model::new();
                for (k, n) in &pre.m {
                    if let Some(r) = k.strip_prefix("/@A") {
                        pre_a.m.insert(r.to_string(), n.clone());
                    }
                }
                crate::errmon::check_op_error(&cfg_a, &o2, &pre_a, e, acc, &|s, summary, what| Violation { property: "C12", signature: s, summary, detail: what, order });
            }
        }
        let diffs = |want: &Model| -> Vec<String> {
            let mut d = vec![];
            let keys: BTreeSet<&String> = want.m.keys().chain(got.m.keys()).collect();
            for k in keys {
                if want.m.get(k.as_str()) != got.m.get(k.as_str()) {
                    let show = |n: Option<&Node>| match n { None => "absent".to_string(), Some(Node::Dir) => "dir".into(), Some(Node::File(b)) => format!("file({})", bytes_repr(b)) };
                    d.push(format!("{}: expected {} got {}", k, show(want.m.get(k.as_str())), show(got.m.get(k.as_str()))));
                }
            }
            d
        };
        let relof = |k: &str| -> &'static str {
            let s = op.path();
            if let Some(dst) = op.dest() {
                if k == dst { return "dest"; }
                if is_under(k, dst) { return "dest-desc"; }
            }
            if k == s { "source" } else if is_under(k, s) { "source-desc" } else if is_under(s, k) { "source-ancestor" } else { "unrelated" }
        };
        match (&exp, &res) {
            (Exp::Ok, Ok(out)) => {
                let want_out = model.apply(&op);
                if let (Out::Count(w), Out::Count(g)) = (&want_out, out) {
                    if w != g {
                        acc.violate(Violation { property: "C11", signature: sig("copy_dir-count", format!("{}", if g > w { "too-many" } else { "too-few" })), summary: format!("{} returned {} but the source has {} descendants", op.render(), g, w), detail: detail(J::Null), order });
                    }
                }
                let d = diffs(&model);
                if let Some(f) = d.first() {
                    let k = f.split(':').next().unwrap();
                    acc.violate(Violation { property: "C11", signature: sig("effect", relof(k).into()), summary: format!("{} succeeded but the result is not exact: {}", op.render(), f), detail: detail(J::arr(d.iter().take(10).map(J::s))), order });
                }
            }
            (Exp::Ok, Err(e)) => {
                acc.violate(Violation { property: "C11", signature: sig("outcome", format!("Ok→Err({})", e.kind.name())), summary: format!("{} must succeed but failed: {}", op.render(), e.display), detail: detail(J::Null), order });
            }
            (Exp::Err(_), Ok(o)) => {
                acc.violate(Violation { property: "C11", signature: sig("outcome", "Err→Ok".into()), summary: format!("{} must be refused ({}), returned Ok {}", op.render(), clsig, o.render()), detail: detail(J::Null), order });
            }
            (Exp::Err(_), Err(_)) => {
                let d = diffs(&pre);
                if !d.is_empty() {
                    let existing_dest = op.dest().map(|x| pre.m.contains_key(x)).unwrap_or(false);
                    if existing_dest {
                        acc.violate(Violation { property: "C11", signature: sig("refusal-with-side-effect", relof(d[0].split(':').next().unwrap()).into()), summary: format!("{} refused an existing destination but changed something: {}", op.render(), d[0]), detail: detail(J::arr(d.iter().take(10).map(J::s))), order });
                    } else {
                        let outside: Vec<&String> = d.iter().filter(|x| !Model::failure_region(&op, x.split(':').next().unwrap())).collect();
                        if let Some(f) = outside.first() {
                            acc.violate(Violation { property: "C11", signature: sig("failure-touched-unrelated", relof(f.split(':').next().unwrap()).into()), summary: format!("{} failed and changed an entry it does not name: {}", op.render(), f), detail: detail(J::arr(d.iter().take(10).map(J::s))), order });
                        }
                    }
                }
            }
            _ => {}
        }
        // structural sanity of both sides after the operation (C03 rules on this workload, reported under C11)
        for (side, s) in [("A", Some(&ta)), ("B", tb.as_ref())] {
            if let Some(s) = s {
                for v in crate::snapshot::check_structure(s) {
                    acc.violate(Violation { property: "C11", signature: sig("ill-formed-after", format!("{}|{}", side, v.rule)), summary: format!("after {} side {} is ill-formed: {} at {:?}", op.render(), side, v.rule, v.path), detail: detail(J::Null), order });
                }
            }
        }
    }
    if idx < 4 {
        acc.sample(idx, J::obj().set("case", J::i(idx)).set("pair", J::s(&pair_name)).set("source_tree", J::arr(tree_a.keys().map(J::s))).set("ops", J::arr(trace.iter().map(J::s))));
    }
    acc.note("pairs", pair_name);
}

pub fn run(a: &Args) -> Acc {
    let n = a.n(10000, 150000);
    let mut acc = par_run(a, "c11", n, |a, idx, acc| run_case(a, "c11", idx, acc));
    // coverage floor: all routes must have been exercised
    let need = ["copy_file:fast-path", "copy_file:fallback-after-NotSupported", "copy_file:cross-instance-stream", "move_file:fast-path", "move_file:fallback-after-NotSupported", "move_dir:fast-path", "move_dir:fallback-after-NotSupported", "move_dir:cross-instance-stream", "copy_dir:generic"];
    if a.only.is_none() && a.scale >= 1.0 {
        let have = acc.sets.get("routes").cloned().unwrap_or_default();
        for r in need {
            if !have.contains(r) {
                acc.inconclusive.push(format!("route {} was never taken", r));
            }
        }
    }
    acc
}
