//! Per-property workloads and budgets.

pub mod alias;
pub mod bookkeeping;
pub mod c02;
pub mod c04;
pub mod c06;
pub mod c07;
pub mod c11;
pub mod c13;
pub mod c14;
pub mod c15;
pub mod c16;
pub mod c17;
pub mod c18;
pub mod c19;
pub mod c20;
pub mod rootgone;
pub mod walkby;

use crate::cfg::{gen_cfg, Cfg};
use crate::engine::{self, Spec};
use crate::gen::Domain;
use crate::report::{Acc, RunMeta};
use crate::rng::Rng;
use crate::Args;

fn meta(a: &Args, rule: &str, assumptions: &[&str]) -> RunMeta {
    RunMeta {
        property: a.property.clone(),
        tier: a.tier.clone(),
        seed: a.seed,
        rule: rule.to_string(),
        level: "exploration",
        assumptions: assumptions.iter().map(|s| s.to_string()).collect(),
        wall_s: 0.0,
        exhaustive: None,
    }
}

fn spec(a: &Args, tag: &'static str, histories: u64, steps: (usize, usize), mut domain: Domain, cfg_gen: engine::CfgGen, prepop: bool, contract: Option<&'static str>) -> Spec {
    domain.avoid = a.avoid.clone();
    let only = if a.tag.as_deref().map(|t| t == tag).unwrap_or(true) { a.only } else { None };
    let histories = if a.only.is_some() && only.is_none() { 0 } else { histories };
    Spec { tag, histories, steps, domain, cfg_gen, prepop, contract, only, seed: a.seed, workers: a.workers, fault_permille: 0 }
}

/// Runs `f(args, index, acc)` for every index of `0..n` (or only `--only` when the tag matches) on the worker pool.
pub fn par_run(a: &Args, tag: &str, n: u64, f: impl Fn(&Args, u64, &mut Acc) + Sync) -> Acc {
    let (lo, hi) = match (a.only, a.tag.as_deref()) {
        (Some(i), Some(t)) if t == tag => (i, i + 1),
        (Some(i), None) => (i, i + 1),
        (Some(_), _) => (0, 0),
        _ => (0, n),
    };
    let next = std::sync::atomic::AtomicU64::new(lo);
    let total = std::sync::Mutex::new(Acc::new());
    std::thread::scope(|s| {
        for _ in 0..a.workers.max(1) {
            s.spawn(|| {
                let mut acc = Acc::new();
                loop {
                    let i = next.fetch_add(1, std::sync::atomic::Ordering::SeqCst);
                    if i >= hi {
                        break;
                    }
                    crate::panicmon::set_context(format!("tag={} case={} (replay: --only {} --tag {})", tag, i, i, tag));
                    f(a, i, &mut acc);
                }
                total.lock().unwrap().merge(acc);
            });
        }
    });
    total.into_inner().unwrap()
}

// ---- configuration families
pub fn cfg_any(rng: &mut Rng) -> Cfg {
    match rng.below(10) {
        0 => Cfg::Mem,
        1 => Cfg::Phys,
        2 => Cfg::Alt(Box::new(Cfg::Mem), "/__alt/p".into()),
        3 => Cfg::Alt(Box::new(Cfg::Phys), "/__alt".into()),
        _ => gen_cfg(rng, 3, true, 3),
    }
}
/// the cheap configurations (no disk, no overlay): many more histories per second on the plain backends
pub fn cfg_plain_mem(rng: &mut Rng) -> Cfg {
    match rng.below(8) {
        0..=4 => Cfg::Mem,
        5 | 6 => Cfg::Alt(Box::new(Cfg::Mem), "/__alt/p".into()),
        _ => Cfg::Alt(Box::new(Cfg::Alt(Box::new(Cfg::Mem), "/__in".into())), "/__alt".into()),
    }
}
pub fn cfg_overlay_top(rng: &mut Rng) -> Cfg {
    if rng.chance(1, 8) {
        return Cfg::OvlShared(Box::new(if rng.chance(1, 3) { Cfg::Phys } else { Cfg::Mem }), rng.range(2, 3));
    }
    let n = rng.range(1, 4);
    let mut layers = vec![];
    for i in 0..n {
        let lc = match rng.below(8) {
            0 | 1 | 2 => Cfg::Mem,
            3 | 4 => Cfg::Phys,
            5 => Cfg::Alt(Box::new(if rng.chance(1, 2) { Cfg::Mem } else { Cfg::Phys }), "/__alt/p".into()),
            _ => gen_cfg(rng, 2, true, 2),
        };
        let b = if rng.chance(1, 2) { String::new() } else { format!("/__lay{}", i) };
        layers.push((lc, b));
    }
    Cfg::Ovl(layers)
}
pub fn cfg_overlay_multi(rng: &mut Rng) -> Cfg {
    if rng.chance(1, 4) {
        // layers that are sub-directories of one shared filesystem instance
        let inner = match rng.below(5) {
            0 | 1 => Cfg::Phys,
            2 => Cfg::Alt(Box::new(Cfg::Mem), "/__alt/p".into()),
            _ => Cfg::Mem,
        };
        return Cfg::OvlShared(Box::new(inner), rng.range(2, 3));
    }
    loop {
        if let Cfg::Ovl(l) = cfg_overlay_top(rng) {
            if l.len() >= 2 {
                return Cfg::Ovl(l);
            }
        }
    }
}

const ENGINE_ASSUMPTIONS: &[&str] = &[
    "finite universe: 2-4 component names from {a,ab,a.b,b,é,d.x,.h,x_w}, depth <= 3; histories bounded as stated in rule",
    "observation = exists/metadata/is_file/is_dir/read_dir/open+read on every universe path and every listing-discovered path + walk_dir(root), after every step",
    "PhysicalFS runs on this host's tmpfs (/dev/shm)",
];

pub fn dispatch(a: &Args) -> Option<(Acc, RunMeta)> {
    match a.property.as_str() {
        "C01" => {
            let mut acc = engine::run(&spec(a, "c01-any", a.n(3400, 40000), (8, 25), Domain::typed(), cfg_any, true, Some("C01")));
            acc.merge(engine::run(&spec(a, "c01-ovl", a.n(1200, 15000), (8, 25), Domain::typed(), cfg_overlay_top, true, Some("C01"))));
            acc.merge(engine::run(&spec(a, "c01-mem", a.n(6000, 80000), (8, 25), Domain::typed(), cfg_plain_mem, true, Some("C01"))));
            Some((acc, meta(a, "seeded random histories (8-25 steps) of the typed C01 domain in lock-step with the abstract tree model on generated configurations (Mem, Phys, Alt, Ovl 1-4 layers with generated conflict-free pre-population, stackings to depth 3); distinct = distinct observable states (tree+bytes fingerprint) reached after a step", ENGINE_ASSUMPTIONS)))
        }
        "C09" => {
            let mut acc = engine::run(&spec(a, "c09-ovl", a.n(4000, 45000), (8, 25), Domain::typed(), cfg_overlay_top, true, Some("C09")));
            acc.merge(alias::run(a));
            Some((acc, meta(a, "seeded random histories of the typed C01 domain on a top-level OverlayFS with 1-4 generated layers (Mem/Phys/Alt/nested Ovl, conflict-free pre-population, same path in several layers), model initialised with the layer union; distinct = distinct observable states", ENGINE_ASSUMPTIONS)))
        }
        "C10" => {
            let mut d = Domain::typed();
            // removal / re-creation cycles dominate
            for w in d.weights.iter_mut() {
                if matches!(w.0, "remove_file" | "remove_dir" | "remove_dir_all" | "create_dir" | "create_file") {
                    w.1 *= 2;
                }
            }
            let mut acc = bookkeeping::run(a);
            acc.merge(engine::run(&spec(a, "c10-ovl", a.n(2600, 30000), (20, 40), d, cfg_overlay_multi, true, Some("C09"))));
            // model-free pass: untyped calls and write handles kept open across removals (a stale handle that is
            // published after its file was removed must not bring a removed lower-layer entry back)
            let mut du = Domain::untyped();
            du.weights.retain(|w| w.0 != "set_time");
            for w in du.weights.iter_mut() {
                if matches!(w.0, "remove_file" | "remove_dir" | "remove_dir_all") {
                    w.1 *= 2;
                }
            }
            acc.merge(engine::run(&spec(a, "c10-held", a.n(1300, 15000), (15, 30), du, cfg_overlay_multi, true, None)));
            Some((acc, meta(a, "seeded random histories (20-40 steps, removal/re-creation heavy) on a top-level OverlayFS with 2-4 pre-populated layers; tombstone monitor: every lower-layer entry removed through the overlay (and its former descendants) must stay invisible to every observer until re-created; discovered-entries rule for bookkeeping names; distinct = distinct observable states", ENGINE_ASSUMPTIONS)))
        }
        "C03" => {
            let mut acc = engine::run(&spec(a, "c03-any", a.n(3300, 40000), (10, 25), Domain::untyped(), cfg_any, true, None));
            acc.merge(engine::run(&spec(a, "c03-ovl", a.n(1500, 20000), (10, 25), Domain::untyped(), cfg_overlay_multi, true, None)));
            Some((acc, meta(a, "seeded random histories of the UNTYPED domain (every operation on every universe path incl. wrong-type calls and root targets, root removal excluded) on all configurations; model-free structural invariant on every snapshot; distinct = distinct observable states", ENGINE_ASSUMPTIONS)))
        }
        "C05" => {
            let mut acc = engine::run(&spec(a, "c05-typed", a.n(2200, 25000), (8, 25), Domain::typed(), cfg_any, true, None));
            acc.merge(engine::run(&spec(a, "c05-untyped", a.n(2200, 25000), (10, 25), Domain::untyped(), cfg_any, true, None)));
            acc.merge(engine::run(&spec(a, "c05-ovl", a.n(1000, 12000), (10, 25), Domain::untyped(), cfg_overlay_multi, true, None)));
            acc.merge(rootgone::run(a));
            acc.merge(walkby::run(a));
            Some((acc, meta(a, "snapshots after every step of typed and untyped histories on all configurations; model-free cross-observer rules (exists/metadata/is_file/is_dir/read_dir/open_file/walk_dir) on every probed and discovered path; distinct = distinct observable states", ENGINE_ASSUMPTIONS)))
        }
        "C08" => {
            let mut d = Domain::untyped();
            for w in d.weights.iter_mut() {
                if w.0 == "set_time" {
                    w.1 = 8;
                }
            }
            let mut acc = engine::run(&spec(a, "c08-ovl", a.n(3000, 30000), (10, 25), d.clone(), cfg_overlay_multi, true, None));
            // same workload with one injected underlying failure in ~20% of the steps (copy-up, marker creation, ... fail half-way)
            let mut faulty = spec(a, "c08-ovl-faults", a.n(1800, 20000), (10, 25), d, cfg_overlay_multi, true, None);
            faulty.fault_permille = 400;
            for w in faulty.domain.weights.iter_mut() {
                if matches!(w.0, "append_file" | "copy_file" | "move_file" | "create_file") {
                    w.1 *= 2;
                }
            }
            acc.merge(engine::run(&faulty));
            // the async port's overlay: deep state of every lower layer (through its own view) unchanged after every step
            acc.merge(par_run(a, "c08-async", a.n(500, 8000), c15::async_lower_untouched_case));
            Some((acc, meta(a, "untyped histories + timestamp setters on OverlayFS with 2-4 pre-populated layers (Mem/Phys/Alt/nested Ovl); recording wrapper around every filesystem of the stack: no mutating call may reach a node inside a lower layer, no mutating call during pure observers; deep state (type, bytes, created, modified) of every lower layer compared before/after every step; async pass: untyped histories + setters on AsyncOverlayFS with 2-3 pre-populated memory/physical layers, deep state of every lower layer read through the layer's own async view compared with its initial value after every step; distinct = distinct observable states", ENGINE_ASSUMPTIONS)))
        }
        "C12" => {
            // no kept-open write handles here: a stale handle published after its file was removed leaves an upper-layer
            // entry hidden behind a deletion marker, and the kind rules (which classify targets by what is observable)
            // would then blame the library for "absent" targets that are not absent underneath
            let mut du = Domain::untyped();
            du.hold_handles = false;
            let mut acc = engine::run(&spec(a, "c12-typed", a.n(1800, 18000), (8, 25), Domain::typed(), cfg_any, true, None));
            acc.merge(engine::run(&spec(a, "c12-untyped", a.n(1800, 18000), (10, 25), du.clone(), cfg_any, true, None)));
            acc.merge(engine::run(&spec(a, "c12-ovl", a.n(1200, 12000), (10, 25), du, cfg_overlay_top, true, None)));
            // errors on directory contents the path API did not create (symlinks to directories / files, dangling links)
            acc.merge(par_run(a, "c13-hostile-dir", a.n(1500, 15000), c13::hostile_dir_case));
            // trailing-slash joins must be classified as invalid-path: the complete join sweep of C06
            acc.merge(c06::run(a).0);
            Some((acc, meta(a, "every Err returned by any operation or observer of typed/untyped histories on all configurations (adapter stackings to depth 3) is checked: label not the placeholder, label related to the call path/destination, kind rules (missing entry -> NotFound, occupied create_dir -> File/DirectoryExists, NotSupported); distinct = distinct observable states", ENGINE_ASSUMPTIONS)))
        }
        "C02" => {
            let acc = c02::run(a);
            Some((acc, meta(a, "seeded random histories (8-25 steps; wrong-type calls, overwrites, re-creations, reader seek/read scripts, contents around 8 KiB, non-UTF-8) executed in lock-step on a fresh MemoryFS and a fresh PhysicalFS (tmpfs): success/failure of every call, not-found / already-exists error classes where the property demands them, return values, and the full observable snapshot of both after every step must agree; distinct = distinct observable states", ENGINE_ASSUMPTIONS)))
        }
        "C04" => {
            let mut d = Domain::typed();
            d.rich_scripts = true;
            d.append_seeks = true;
            d.big_content_permille = 250;
            d.weights = vec![("create_file", 10), ("append_file", 9), ("copy_file", 4), ("move_file", 3), ("open_read", 2), ("metadata", 2), ("create_dir", 3), ("read_to_string", 2), ("copy_dir", 1), ("move_dir", 1)];
            let mut acc = engine::run(&spec(a, "c04-engine", a.n(2000, 20000), (6, 16), d, cfg_any, true, Some("C04")));
            acc.merge(c04::run(a));
            Some((acc, meta(a, "(A) engine histories dominated by write sessions with write/seek/flush scripts (append seeks on memory-backed configurations only), contents 0..16384 bytes incl. the 8 KiB copy-buffer boundary and non-UTF-8, copy/move, on all configurations incl. overlay copy-up: after every step every file must read back (random read-buffer size per history) exactly the bytes std::io::Cursor semantics prescribe and metadata must report that length, directories length 0; (B) session cases up to 65537 bytes (200 kB thorough): flush through a still-open handle must be visible to a new reader, read-back with buffer sizes 1,2,7,4096,8192,len,len+1, copy_file/move_file to the same instance, a twin instance and another backend; distinct = distinct observable states (A) + distinct final contents (B)", ENGINE_ASSUMPTIONS)))
        }
        "C06" => {
            let (acc, exhaustive) = c06::run(a);
            let mut m = meta(a, "complete sweep of every concatenation of up to 7 (quick) / 9 (thorough) tokens from {'/','.','..','a','b.c','é','.h','a.'} joined onto bases of depth 0-3 (exhaustive for that bound), plus random strings over arbitrary characters and random chains of join/parent/root; oracle = independent component-stack resolver + canonical-form predicate + laws (parent-of-join, filename, extension, root, is_root, equality within/across instances, composition); VfsPath and AsyncVfsPath; distinct_nontrivial = distinct argument strings containing a separator or '..'", &["the bounded sweep is complete for its token bound only; beyond it arguments are sampled"]);
            m.exhaustive = Some(exhaustive);
            Some((acc, m))
        }
        "C18" => {
            let acc = c18::run(a);
            let mut m = meta(a, "complete enumeration of the path set of two compile-time embedded fixtures and of 300 (quick) / 6000 (thorough) generated embedded trees (1-8 files, depth 1-4, 2-5 names drawn from a pool in which names recur as text inside earlier components, as prefixes/suffixes of siblings and as their own parent's name; served through a hand-written RustEmbed implementation over a per-thread table, mirrored on disk for the PhysicalFS side); fixtures: (committed harness/fixtures/embed_tree with nested, dotted, multi-byte, prefix-sharing names, empty and binary files; the repository's test/test_directory): every file, implied directory, the root, absent siblings, every proper prefix and one-character extensions of existing names, paths below files; all observers via full snapshots with read buffers 1/7/8192 compared with PhysicalFS on the same folder and with the folder read by std::fs; every public path operation (incl. extreme read/seek scripts) on every such path; every mutator must be refused (NotSupported where a writable backend would accept) and change nothing; distinct = distinct probed paths", &["rust-embed debug-embed feature: bytes really come from the binary", "fixture folders contain no empty directories (an embedded folder cannot represent them)"]);
            // the path set of every tree is enumerated completely, but the generated trees themselves are a sample
            m.exhaustive = Some(false);
            Some((acc, m))
        }
        "C19" => {
            let acc = c19::run(a);
            Some((acc, meta(a, "per case: a directory and two files (upper-only, lower-only or copied-up on overlays) on Mem/Phys/Alt/Ovl/Alt(Ovl)/Ovl[Alt] configurations; 3-9 setter calls over the three fields in random order with values from {epoch, +1ns, sub-second extremes, 2001, 2023, 2096, year 9999, before the epoch} (host-calibrated for PhysicalFS); metadata before/after each setter (no reads in between): the set field round-trips exactly, other timestamps/len/type unchanged, failures must be NotSupported and change nothing; adapter metadata equals the served entry's own metadata; appends preserve `created` on memory-backed entries; bytes compared at the end; the same setter monitor through the async port (AsyncMemoryFS: not-supported and nothing changes; AsyncPhysicalFS/AsyncAltrootFS/AsyncOverlayFS: round trip) with injected Pending results; distinct = distinct (field, entry kind, placement, config family, value)", &["PhysicalFS time values are first calibrated on the host: only values the OS round-trips exactly are demanded"])))
        }
        "C07" => {
            let acc = c07::run(a);
            Some((acc, meta(a, "per history: altroot at P (depth 0-3) over Mem / Phys / Ovl / another altroot, decoys in the underlying filesystem next to P (siblings, prefix-twins of every ancestor, same names at the underlying root, files outside a PhysicalFS root); 6-18 untyped operations whose paths are obtained through hostile join expressions ('../' chains above the root, absolute restarts, './', '//', 'zz/../') that the reference resolver maps to the intended path; monitors after every step: (a) every call crossing into the underlying filesystem names P or a path below P, (b) nothing outside P (and outside the PhysicalFS root directory) changed, (c) altroot view == subtree below P re-rooted, (d) outcome, error kind, return value and resulting tree equal those of the translated operation on a twin underlying filesystem; distinct = distinct observable states of the underlying filesystem", ENGINE_ASSUMPTIONS)))
        }
        "C20" => {
            let acc = c20::run(a);
            let mut m = meta(a, "sampled cases (configuration from {Mem, Phys, Alt(Mem), Ovl 2-3 layers with generated pre-population, Alt(Ovl), Ovl[Alt(Mem),Phys], Ovl[Phys,Mem]}, a generated prefix history of 0-6 steps, one operation — composites create_dir_all/remove_dir_all/copy_file/move_file/copy_dir/move_dir/walk_dir/read_to_string and every primitive/observer through the adapters); for each case the fault-free run counts the N calls made into the wrapped filesystems (every filesystem of the stack is wrapped), then for EVERY k in 1..N the pre-state is rebuilt on fresh filesystems, the k-th call returns an injected I/O error, and the result + snapshot (injection off) are compared with the fault-free full effect / value; second dimension: the k-th handle read/write/flush fails; complete over k per case (fault enumeration), cases are sampled; distinct = distinct (operation, target class, configuration shape, failed method and layer, k)", &["the fault-free run of the implementation defines the full effect (its correctness is C01/C09/C11's subject)", "an Err result is accepted with any state as long as no lower layer was touched"]);
            m.level = "fault_enumeration";
            Some((acc, m))
        }
        "C13" => {
            let mut d = Domain::untyped();
            d.keep_root = false;
            d.root_targets = true;
            d.rich_scripts = true;
            d.append_seeks = true;
            d.extreme_scripts = true;
            let mut acc = engine::run(&spec(a, "c13-any", a.n(3000, 25000), (10, 30), d.clone(), cfg_any, true, None));
            acc.merge(engine::run(&spec(a, "c13-ovl", a.n(1000, 8000), (10, 30), d, cfg_overlay_top, true, None)));
            acc.merge(par_run(a, "c13-handles", a.n(15000, 200000), |a, idx, acc| c14::run_case(a, "c13-handles", idx, true, acc)));
            acc.merge(c13::run_dedicated(a));
            acc.merge(c18::run(a));
            acc.merge(c06::run(a).0);
            acc.merge(par_run(a, "c13-async", a.n(1500, 10000), c15::hostile_async_case));
            acc.merge(par_run(a, "c13-walk-mutation", a.n(800, 8000), c15::walk_mutation_case));
            acc.merge(par_run(a, "c13-async-handles", a.n(1500, 20000), c15::async_handle_case_extreme));
            acc.merge(bookkeeping::run(a));
            Some((acc, meta(a, "catch_unwind + panic hook around every library call of: (1) unrestricted histories (all operations on all paths incl. root targets and root removal, wrong types, write scripts with seeks, read scripts with offsets i64::MIN..i64::MAX / u64::MAX) on all configurations; (2) handle scripts with extreme offsets on Mem/Phys/Alt/Ovl handles; (3) handles used after their file / parent directory was removed, replaced or moved; (4) PhysicalFS over directories prepared with std::fs (non-UTF-8 names, dangling symlinks, symlink loops, self links); (5) every operation on every path of the EmbeddedFS fixtures; (6) the join sweep; (7) the async port (same histories through AsyncVfsPath on a tokio current-thread executor; AsyncPhysicalFS over the prepared directories of (4)); (8) sync and async walk_dir polled to the end while already-listed entries are removed mid-walk; distinct = distinct observable states / scripts / scenarios", &["copy_dir/move_dir into the source's own subtree is never generated (documented non-termination)", "OverlayFS::new(&[]) is the documented panic and is never called", "dev profile: overflow checks and debug assertions on; thorough also runs the release profile"])))
        }
        "C15" => {
            let acc = c15::run(a);
            Some((acc, meta(a, "per script: one generated history (typed C01/C09 domain, reader seek/read scripts, write scripts without seek, generated overlay pre-population) is executed in lock-step on a sync configuration and on 4 (quick) / 8 (thorough) async twins (AsyncMemoryFS/AsyncPhysicalFS/AsyncAltrootFS/AsyncOverlayFS, same stacking) running on a tokio current-thread executor behind PendingFs, which makes every AsyncFileSystem call and every directory-stream item return Pending according to a schedule (none, once everywhere, random, bursts); outcome, error class, return values (read-handle script results, read_dir name sets, walk_dir item sets and directory-before-content order) and the full snapshot after every step must agree between sync and every async twin; plus a complete sweep over all 2^M pending patterns of the walk_dir stream on small trees (M <= 11 quick / 14 thorough); distinct = distinct observable states + distinct pending patterns", &["timestamps are not compared (AsyncMemoryFS does not implement them)", "no path is observed while a write handle to it is open", "executor: tokio current-thread (the crate's writer Drop is incompatible with futures::executor::block_on)"])))
        }
        "C16" => {
            let acc = c16::run(a);
            Some((acc, meta(a, "generated concurrent programs (2-3 threads x 1-3 operations from create_dir, create_file+write+drop, append+write+drop, remove_file, remove_dir, exists, metadata, read_dir, open+read over 2-3 overlapping paths, small pre-state) on one MemoryFS; every thread is a real OS thread that parks at each verif-hooks yield point (before every lock acquisition) and at every call boundary until the controller hands it the baton; per program: depth-first sweep of ALL schedules while it fits the cap (then 'programs_swept_exhaustively'), otherwise random + PCT schedules; every distinct (results, final tree) outcome is checked by re-executing candidate sequential orders of the same library calls (path call, handle publish) on a fresh MemoryFS — program order respected — until one reproduces all results and the final tree; final tree checked for well-formedness; panics and deadlocks (threads that never come back from a call) are violations; distinct = distinct schedules (sequence of (thread, yield label))", &["granularity of the specification: one library call (a path method, or the flush/drop of a write handle) is one atomic step; a write session is create/append-open followed later by publish, exactly as the sequential API defines it", "baton mode preempts only at hooked lock acquisitions and call boundaries", "real-time order is not demanded (C16 asks for program order)"])))
        }
        "C17" => {
            let acc = c17::run(a);
            Some((acc, meta(a, "path tuples (2-4 threads, depth 1-4 over names {a,b}, prefixes of every length shared) of concurrent create_dir_all calls; state before the threads start: nothing, the same names created and removed again, some requested prefixes (or whole paths) already existing, or existing in the lowest overlay layer only; MemoryFS, Alt(Mem), Ovl[Mem,Mem], Alt(Ovl[Mem,Mem]) under the baton scheduler (depth-first sweep of ALL schedules per tuple while it fits the cap, else random + PCT) with yield points before every MemoryFS lock acquisition; PhysicalFS, Alt(Phys), Ovl[Phys,Phys] free-running with barrier start and random yield/spin/sleep injected at the PhysicalFS::create_dir hook; every call must return Ok and afterwards every requested path and ancestor must be a directory; distinct = distinct schedules (baton) + distinct physical rounds", &["baton mode preempts only at hooked lock acquisitions; physical rounds sample real preemption", "no concurrent removals and no files in the way (as the property states)"])))
        }
        "C07strace" => {
            let acc = c07::run_strace_workload(a);
            Some((acc, meta(a, "strace workload", &[])))
        }
        "C11" => {
            let acc = c11::run(a);
            Some((acc, meta(a, "per case: generated source tree (depth<=4, empty directories, binary files 0..20000 bytes incl. the 8 KiB boundary; on overlays partly in a lower layer) on filesystem A and a generated destination filesystem B (same instance, a twin instance of the same configuration, or another backend from {Mem, Phys, Alt(Mem), Alt(Phys), Ovl}); 1-4 operations from create_dir_all/remove_dir_all/copy_file/move_file/copy_dir/move_dir with destinations: free name, existing entry, missing parent, below a file, the root; full snapshots of both filesystems before/after vs the pair model; call log of the top-level wrapper classifies the route (fast path / NotSupported fallback / cross-instance stream copy); coverage floor: every route taken; distinct = distinct observable state pairs", ENGINE_ASSUMPTIONS)))
        }
        "C14" => {
            let acc = c14::run(a);
            Some((acc, meta(a, "per case: generated content (0..65537 bytes, 200 kB in thorough; non-UTF-8) placed directly or in a lower overlay layer; a read script (read(n)/seek(Start|Current|End, offsets around 0, +-len, +-2^40)/read_to_end) and a write script (create or append; write/seek/flush; append seeks on memory-backed configurations only) are run call by call on the real handle and on std::io::Cursor; results, final position and the bytes published by drop must agree; distinct = distinct (script, length) pairs", &["handles from Mem, Phys, Alt(Mem), Alt(Phys), Ovl (served from lower / copied up), Alt(Ovl)", "error kinds of failing seeks are not compared, only that both fail", "reads are compared after looping to n bytes or EOF (short reads are legal)"])))
        }
        _ => None,
    }
}
