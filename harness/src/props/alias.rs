//! Directed probe for the overlay's deletion-marker naming: the marker of entry `n` in directory D is the
//! upper-layer file `.whiteout/D/n_wo`, and the markers of entries inside the directory `D/n_wo` live in the
//! upper-layer directory `.whiteout/D/n_wo/` — the same path. The generators of the other workloads never
//! produce a sibling pair (`n`, `n_wo`), so this pair is exercised here, on purpose and only here.

use crate::cfg::{build, Cfg};
use crate::json::J;
use crate::model::Node;
use crate::ops::{at, exec, res_class, Op};
use crate::report::{Acc, Violation};
use crate::snapshot::snapshot;
use crate::Args;
use std::collections::BTreeMap;

pub fn run(a: &Args) -> Acc {
    let mut acc = Acc::new();
    let cfgs = [
        Cfg::Ovl(vec![(Cfg::Mem, "".into()), (Cfg::Mem, "/__lay1".into())]),
        Cfg::Ovl(vec![(Cfg::Phys, "".into()), (Cfg::Mem, "".into())]),
        Cfg::Alt(Box::new(Cfg::Ovl(vec![(Cfg::Mem, "".into()), (Cfg::Mem, "".into())])), "/__alt".into()),
    ];
    let mut case = 0u64;
    for cfg in &cfgs {
        for n in ["x", "a.b", "é"] {
            for n_is_dir in [false, true] {
                for parent in ["", "/p"] {
                    for order in 0..3 {
                        case += 1;
                        run_one(a, cfg, n, n_is_dir, parent, order, case, &mut acc);
                    }
                }
            }
        }
    }
    acc
}

#[allow(clippy::too_many_arguments)]
fn run_one(a: &Args, cfg: &Cfg, n: &str, n_is_dir: bool, parent: &str, order: usize, case: u64, acc: &mut Acc) {
    let b = build(cfg);
    let (ovl, prefix) = match crate::prepop::outer_overlay(&b) {
        Some(x) => x,
        None => return,
    };
    let views = b.layer_views(ovl);
    // lower layer: <parent>/n (file or directory), <parent>/n_wo/ (directory) with two children
    let pn = format!("{}/{}", parent, n);
    let pd = format!("{}/{}_wo", parent, n);
    let mut tree: BTreeMap<String, Node> = BTreeMap::new();
    if !parent.is_empty() {
        tree.insert(parent.to_string(), Node::Dir);
    }
    tree.insert(pn.clone(), if n_is_dir { Node::Dir } else { Node::File(b"keep me".to_vec()) });
    tree.insert(pd.clone(), Node::Dir);
    tree.insert(format!("{}/c", pd), Node::File(b"child".to_vec()));
    tree.insert(format!("{}/d", pd), Node::File(b"other child".to_vec()));
    if crate::prepop::write_tree(&views[views.len() - 1].1, &prefix, &tree).is_err() {
        acc.count("setup_failed", 1);
        return;
    }
    let rm_child = Op::RemoveFile(format!("{}/c", pd));
    let rm_n = if n_is_dir { Op::RemoveDir(pn.clone()) } else { Op::RemoveFile(pn.clone()) };
    // order 0: remove the child of n_wo, then look at n; 1: remove n, then the child; 2: the child, then n
    let steps: Vec<&Op> = match order {
        0 => vec![&rm_child],
        1 => vec![&rm_n, &rm_child],
        _ => vec![&rm_child, &rm_n],
    };
    let probe: Vec<String> = tree.keys().cloned().collect();
    let mut want: BTreeMap<String, Node> = tree.clone();
    let mut trace = vec![format!("lower layer: {:?}", tree.keys().collect::<Vec<_>>())];
    acc.evaluations += 1;
    acc.fingerprints.insert(crate::rng::Rng::derive(case, &cfg.shape(), order as u64).0);
    let detail = |trace: &Vec<String>| J::obj().set("tag", J::s("overlay-marker-alias")).set("seed", J::i(a.seed)).set("case", J::i(case)).set("config", J::s(cfg.desc())).set("trace", J::arr(trace.iter().map(J::s)));
    let kind = if n_is_dir { "dir" } else { "file" };
    for op in steps {
        let r = exec(&b.root, op);
        trace.push(format!("{} => {}", op.render(), res_class(&r)));
        acc.steps += 1;
        if r.is_err() {
            acc.violate(Violation { property: "C09", signature: format!("marker-alias|removal-fails|{}|{}|order{}|{}", op.name(), kind, order, cfg.family()), summary: format!("{} of an existing lower-layer entry fails when the sibling pair ({}, {}_wo) is involved: {}", op.render(), n, n, crate::ops::render_res(&r)), detail: detail(&trace), order: case });
            return;
        }
        want.remove(op.path());
        let snap = snapshot(&b.root, &probe, 4096);
        let got = snap.tree();
        for p in &probe {
            let (w, g) = (want.get(p), got.m.get(p));
            if w != g {
                acc.violate(Violation {
                    property: "C09",
                    signature: format!("marker-alias|{}|{}|order{}|{}", if w.is_some() { "sibling-hidden" } else { "removed-entry-visible" }, kind, order, cfg.family()),
                    summary: format!("after {} the entry {:?} is {} (lower layer holds the sibling pair {:?} / {:?})", op.render(), p, if g.is_some() { "still visible" } else { "gone although it was never removed" }, pn, pd),
                    detail: detail(&trace),
                    order: case,
                });
                return;
            }
        }
    }
    let _ = at(&b.root, "");
    acc.cell(format!("alias|{}|order{}|{}", kind, order, cfg.family()));
    if case <= 2 {
        acc.sample(5000 + case, J::obj().set("overlay_marker_alias_case", J::i(case)).set("config", J::s(cfg.desc())).set("trace", J::arr(trace.iter().map(J::s))));
    }
}
