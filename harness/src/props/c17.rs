//! C17 — concurrent create_dir_all calls all succeed (guarantee documented since 0.9.0).
//! Baton scheduler (sweep / random / PCT) for MemoryFS and adapters over it; free-running stress with injected
//! delays at the PhysicalFS::create_dir hook for physical configurations.

use crate::cfg::{build, Cfg};
use crate::json::J;
use crate::ops::at;
use crate::panicmon::guard;
use crate::props::c16::Pool;
use crate::props::par_run;
use crate::report::{Acc, Violation};
use crate::rng::Rng;
use crate::sched::{pct_source, Baton, RunEnd, Source};
use crate::Args;
use std::collections::BTreeSet;
use std::sync::{Arc, Barrier, Mutex};
use std::time::Duration;
use vfs::VfsPath;

fn gen_paths(rng: &mut Rng, threads: usize, max_depth: usize) -> Vec<String> {
    let names = ["a", "b"];
    (0..threads)
        .map(|_| {
            let d = rng.range(1, max_depth);
            (0..d).map(|_| format!("/{}", if rng.chance(3, 4) { names[0] } else { names[1] })).collect::<String>()
        })
        .collect()
}

fn prefixes(p: &str) -> Vec<String> {
    let mut v = vec![];
    let mut cur = String::new();
    for c in p.split('/').filter(|c| !c.is_empty()) {
        cur = format!("{}/{}", cur, c);
        v.push(cur.clone());
    }
    v
}

fn mem_cfgs(i: u64) -> Cfg {
    match i % 5 {
        0 | 1 => Cfg::Mem,
        2 => Cfg::Alt(Box::new(Cfg::Mem), "/__alt/p".into()),
        3 => Cfg::Ovl(vec![(Cfg::Mem, "".into()), (Cfg::Mem, "/__lay1".into())]),
        _ => Cfg::Alt(Box::new(Cfg::Ovl(vec![(Cfg::Mem, "/__lay0".into()), (Cfg::Mem, "".into())])), "/__alt".into()),
    }
}

thread_local! {
    static POOL: std::cell::RefCell<Option<Pool>> = const { std::cell::RefCell::new(None) };
}

struct Run {
    results: Vec<Option<Result<(), String>>>,
    trace: Vec<(usize, &'static str)>,
    decisions: Vec<usize>,
    widths: Vec<usize>,
    end: RunEnd,
    not_dirs: Vec<String>,
    rerun_after_timeout: bool,
}

/// State the names have before the threads start.
#[derive(Clone, Debug, Default)]
pub struct Pre {
    /// created and removed again (overlays then carry deletion markers for them)
    removed: bool,
    /// directories (prefixes of the requested paths, possibly a whole path) that already exist
    dirs: Vec<String>,
    /// ... in the lowest layer of the outermost overlay only (ignored when the configuration has no overlay)
    in_lower: bool,
}

impl Pre {
    fn gen(rng: &mut Rng, paths: &[String]) -> Pre {
        let kind = rng.below(5);
        let mut pre = Pre { removed: kind == 1, dirs: vec![], in_lower: kind >= 3 };
        if kind >= 2 {
            for p in paths {
                let pf = prefixes(p);
                let k = rng.below(pf.len() + 1);
                if k > 0 && !pre.dirs.contains(&pf[k - 1]) {
                    pre.dirs.push(pf[k - 1].clone());
                }
            }
        }
        pre
    }
    fn tag(&self) -> &'static str {
        if self.removed {
            "|after-earlier-removal"
        } else if self.dirs.is_empty() {
            ""
        } else if self.in_lower {
            "|prefix-in-lower-layer"
        } else {
            "|prefix-exists"
        }
    }
    fn apply(&self, b: &crate::cfg::Built) {
        let root = &b.root;
        if self.removed {
            return;
        }
        let lower = if self.in_lower { crate::prepop::outer_overlay(b).and_then(|(node, prefix)| b.layer_views(node).last().cloned().map(|(_, v, _)| (v, prefix))) } else { None };
        for d in &self.dirs {
            let _ = match &lower {
                Some((view, prefix)) => at(view, &format!("{}{}", prefix, d)).create_dir_all(),
                None => at(root, d).create_dir_all(),
            };
        }
    }
}

/// see c16::execute: a suspected deadlock is replayed with a generous wall-clock limit before it is believed
fn execute(cfg: &Cfg, paths: &[String], pre: &Pre, source: &mut Source) -> Run {
    let r = execute_once(cfg, paths, pre, source, 1500);
    if let RunEnd::Deadlock(_) = r.end {
        if crate::panicmon::CONFIRMED_DEADLOCKS.load(std::sync::atomic::Ordering::SeqCst) > 0 {
            return r;
        }
        let mut src = Source::Script { script: r.decisions.clone(), widths: vec![] };
        let mut r2 = execute_once(cfg, paths, pre, &mut src, 20_000);
        r2.rerun_after_timeout = true;
        if let RunEnd::Deadlock(_) = r2.end {
            crate::panicmon::CONFIRMED_DEADLOCKS.fetch_add(1, std::sync::atomic::Ordering::SeqCst);
        }
        return r2;
    }
    r
}

fn execute_once(cfg: &Cfg, paths: &[String], pre: &Pre, source: &mut Source, stuck_ms: u64) -> Run {
    let b = build(cfg);
    let root = b.root.clone();
    pre.apply(&b);
    if pre.removed {
        // earlier (not concurrent) life of the same names: created and removed again before the threads start,
        // so that overlays carry deletion markers for them
        for p in paths {
            let _ = at(&root, p).create_dir_all();
        }
        for top in ["/a", "/b"] {
            let _ = at(&root, top).remove_dir_all();
        }
    }
    let baton = Baton::new(paths.len());
    let results: Arc<Mutex<Vec<Option<Result<(), String>>>>> = Arc::new(Mutex::new(vec![None; paths.len()]));
    let mut pool = POOL.with(|p| p.borrow_mut().take()).unwrap_or_else(|| Pool::new(4));
    for (i, p) in paths.iter().enumerate() {
        let (baton, root, p, results) = (baton.clone(), root.clone(), p.clone(), results.clone());
        pool.submit(i, Box::new(move || {
            let b2 = baton.clone();
            vfs::verif_hooks::set_thread_hook(Some(Box::new(move |label| b2.yield_point(i, label))));
            baton.yield_point(i, "start");
            let r = guard(|| at(&root, &p).create_dir_all());
            results.lock().unwrap()[i] = Some(match r {
                Ok(Ok(())) => Ok(()),
                Ok(Err(e)) => Err(format!("{:?}: {}", crate::ops::ErrInfo::from_vfs(&e).kind, e)),
                Err(pn) => Err(format!("PANIC {} at {}", pn.message, pn.location)),
            });
            vfs::verif_hooks::set_thread_hook(None);
            baton.finish(i);
        }));
    }
    let rr = baton.control(source, Duration::from_millis(stuck_ms));
    let mut not_dirs = vec![];
    if rr.end == RunEnd::Completed {
        pool.wait_all(paths.len());
        POOL.with(|p| *p.borrow_mut() = Some(pool));
        for p in paths {
            for pre in prefixes(p) {
                if !at(&root, &pre).is_dir().unwrap_or(false) {
                    not_dirs.push(pre);
                }
            }
        }
    } else {
        pool.abandon();
    }
    let results = results.lock().unwrap().clone();
    Run { results, trace: rr.trace, decisions: rr.decisions, widths: rr.widths, end: rr.end, not_dirs, rerun_after_timeout: false }
}

fn trace_text(trace: &[(usize, &'static str)]) -> String {
    trace.iter().map(|(t, l)| format!("T{}@{}", t, l.trim_start_matches("memory::"))).collect::<Vec<_>>().join(" ")
}

pub fn run_tuple(a: &Args, tag: &'static str, idx: u64, schedules: u64, sweep_cap: u64, acc: &mut Acc) {
    if crate::panicmon::CONFIRMED_DEADLOCKS.load(std::sync::atomic::Ordering::SeqCst) >= 3 {
        acc.count("tuples_skipped_after_confirmed_deadlocks", 1);
        return;
    }
    let mut rng = Rng::derive(a.seed, tag, idx);
    let cfg = mem_cfgs(idx);
    let nthreads = *rng.pick(&[2usize, 2, 3, 4]);
    let depth = if nthreads == 2 { rng.range(1, 4) } else { rng.range(1, 3) };
    let paths = gen_paths(&mut rng, nthreads, depth);
    let pre = Pre::gen(&mut rng, &paths);
    let mut distinct: BTreeSet<u64> = BTreeSet::new();
    acc.count("tuples", 1);
    let mut judge = |acc: &mut Acc, r: &Run, strategy: &str, distinct: &mut BTreeSet<u64>| -> bool {
        acc.evaluations += 1;
        acc.steps += r.trace.len() as u64;
        let mut h = 0xcbf29ce484222325u64;
        for (t, l) in &r.trace {
            h = (h ^ (*t as u64 + 1)).wrapping_mul(0x100000001b3);
            for b in l.bytes() {
                h = (h ^ b as u64).wrapping_mul(0x100000001b3);
            }
        }
        if distinct.insert(h) {
            acc.fingerprints.insert(h ^ idx.wrapping_mul(0x9E3779B97F4A7C15));
        }
        let detail = || {
            J::obj().set("tag", J::s(tag)).set("seed", J::i(a.seed)).set("history", J::i(idx)).set("config", J::s(cfg.desc())).set("paths", J::arr(paths.iter().map(J::s))).set("state_before", J::s(format!("{:?}", pre))).set("strategy", J::s(strategy)).set("schedule", J::s(trace_text(&r.trace))).set("decisions", J::s(format!("{:?}", r.decisions))).set("results", J::s(format!("{:?}", r.results)))
        };
        if r.rerun_after_timeout {
            acc.count("suspected_deadlocks_replayed_with_long_limit", 1);
        }
        if let RunEnd::Deadlock(stuck) = &r.end {
            acc.violate(Violation { property: "C17", signature: format!("deadlock|{}", cfg.shape()), summary: format!("threads {:?} never came back from create_dir_all", stuck), detail: detail(), order: idx });
            return false;
        }
        for (i, res) in r.results.iter().enumerate() {
            if let Some(Err(e)) = res {
                let kind = e.split(':').next().unwrap_or("").to_string();
                acc.violate(Violation { property: "C17", signature: format!("call-failed|{}|{}{}", kind.chars().filter(|c| !c.is_ascii_digit()).take(40).collect::<String>(), cfg.shape(), pre.tag()), summary: format!("concurrent create_dir_all({}) of thread {} failed: {} (paths {:?}, schedule {})", paths[i], i, e, paths, trace_text(&r.trace)), detail: detail(), order: idx });
                if e.starts_with("PANIC") {
                    acc.violate(Violation { property: "C13", signature: format!("panic|concurrent-create_dir_all|{}", cfg.shape()), summary: e.clone(), detail: detail(), order: idx });
                }
            }
        }
        if !r.not_dirs.is_empty() {
            acc.violate(Violation { property: "C17", signature: format!("not-a-directory-afterwards|{}", cfg.shape()), summary: format!("after all create_dir_all calls returned, {:?} is not a directory (paths {:?})", r.not_dirs, paths), detail: detail(), order: idx });
        }
        true
    };
    // sweep
    let mut stack: Vec<(usize, usize)> = vec![];
    let mut runs = 0u64;
    let mut complete = false;
    loop {
        let mut src = Source::Script { script: stack.iter().map(|x| x.0).collect(), widths: vec![] };
        let r = execute(&cfg, &paths, &pre, &mut src);
        runs += 1;
        if !judge(acc, &r, "sweep", &mut distinct) {
            break;
        }
        for k in stack.len()..r.decisions.len() {
            stack.push((r.decisions[k], r.widths[k]));
        }
        while let Some((c, w)) = stack.last().cloned() {
            if c + 1 < w {
                stack.last_mut().unwrap().0 = c + 1;
                break;
            }
            stack.pop();
        }
        if stack.is_empty() {
            complete = true;
            break;
        }
        if runs >= sweep_cap {
            break;
        }
    }
    if complete {
        acc.count("tuples_swept_exhaustively", 1);
        acc.count("schedules_in_exhaustive_sweeps", runs);
    } else {
        for s in 0..schedules {
            let mut srng = Rng::derive(a.seed ^ idx, "c17-sched", s);
            let mut src = if s % 3 == 2 { pct_source(&mut srng, paths.len(), 2, 30) } else { Source::Random(srng) };
            let r = execute(&cfg, &paths, &pre, &mut src);
            if !judge(acc, &r, if s % 3 == 2 { "pct" } else { "random" }, &mut distinct) {
                break;
            }
        }
    }
    acc.count("distinct_schedules", distinct.len() as u64);
    acc.note("config_shapes", cfg.shape());
    if idx < 3 {
        acc.sample(idx, J::obj().set("config", J::s(cfg.desc())).set("paths", J::arr(paths.iter().map(J::s))).set("distinct_schedules_run", J::i(distinct.len() as u64)).set("swept_exhaustively", J::Bool(complete)));
    }
}

/// Free-running stress on physical configurations: real preemption + delays injected at PhysicalFS::create_dir.
pub fn physical_round(a: &Args, idx: u64, acc: &mut Acc) {
    let mut rng = Rng::derive(a.seed, "c17-phys", idx);
    let cfg = match idx % 4 {
        0 | 1 => Cfg::Phys,
        2 => Cfg::Alt(Box::new(Cfg::Phys), "/__alt/p".into()),
        _ => Cfg::Ovl(vec![(Cfg::Phys, "".into()), (Cfg::Phys, "/__lay1".into())]),
    };
    let b = build(&cfg);
    let nthreads = rng.range(2, 4);
    let paths = gen_paths(&mut rng, nthreads, 4);
    let mut pre = Pre::gen(&mut rng, &paths);
    pre.removed = false;
    pre.apply(&b);
    let barrier = Arc::new(Barrier::new(nthreads));
    let hits = Arc::new(std::sync::atomic::AtomicU64::new(0));
    let results: Vec<Result<(), String>> = std::thread::scope(|s| {
        let hs: Vec<_> = paths
            .iter()
            .enumerate()
            .map(|(i, p)| {
                let root: VfsPath = b.root.clone();
                let barrier = barrier.clone();
                let hits = hits.clone();
                let mut trng = Rng::derive(a.seed ^ idx, "c17-phys-thread", i as u64);
                s.spawn(move || {
                    vfs::verif_hooks::set_thread_hook(Some(Box::new(move |label| {
                        if label.starts_with("physical::create_dir") {
                            hits.fetch_add(1, std::sync::atomic::Ordering::Relaxed);
                            match trng.below(4) {
                                0 => std::thread::yield_now(),
                                1 => {
                                    for _ in 0..trng.below(2000) {
                                        std::hint::spin_loop();
                                    }
                                }
                                2 => std::thread::sleep(Duration::from_micros(trng.below(60) as u64)),
                                _ => {}
                            }
                        }
                    })));
                    barrier.wait();
                    let r = guard(|| at(&root, p).create_dir_all());
                    vfs::verif_hooks::set_thread_hook(None);
                    match r {
                        Ok(Ok(())) => Ok(()),
                        Ok(Err(e)) => Err(format!("{:?}: {}", crate::ops::ErrInfo::from_vfs(&e).kind, e)),
                        Err(pn) => Err(format!("PANIC {} at {}", pn.message, pn.location)),
                    }
                })
            })
            .collect();
        hs.into_iter().map(|h| h.join().unwrap_or_else(|_| Err("thread died".into()))).collect()
    });
    acc.evaluations += 1;
    acc.count("physical_rounds", 1);
    acc.count("physical_create_dir_hook_hits", hits.load(std::sync::atomic::Ordering::Relaxed));
    acc.fingerprints.insert(Rng::derive(idx, &paths.join(","), cfg.shape().len() as u64).0);
    let detail = || J::obj().set("tag", J::s("c17-phys")).set("seed", J::i(a.seed)).set("history", J::i(idx)).set("config", J::s(cfg.desc())).set("paths", J::arr(paths.iter().map(J::s))).set("state_before", J::s(format!("{:?}", pre))).set("results", J::s(format!("{:?}", results)));
    for (i, r) in results.iter().enumerate() {
        if let Err(e) = r {
            acc.violate(Violation { property: "C17", signature: format!("call-failed|{}|{}{}", e.split(':').next().unwrap_or("").chars().filter(|c| !c.is_ascii_digit()).take(40).collect::<String>(), cfg.shape(), pre.tag()), summary: format!("concurrent create_dir_all({}) failed on a physical configuration: {} (paths {:?})", paths[i], e, paths), detail: detail(), order: idx });
        }
    }
    for p in &paths {
        for pre in prefixes(p) {
            if !at(&b.root, &pre).is_dir().unwrap_or(false) {
                acc.violate(Violation { property: "C17", signature: format!("not-a-directory-afterwards|{}", cfg.shape()), summary: format!("{} is not a directory after the concurrent create_dir_all calls (paths {:?})", pre, paths), detail: detail(), order: idx });
            }
        }
    }
    acc.note("config_shapes", cfg.shape());
}

pub fn run(a: &Args) -> Acc {
    // thorough: ~15 min on 16 cores (6000 tuples x cap 3000 did not finish within 45 min)
    let (tuples, schedules, cap) = if a.tier == "thorough" { (a.n(300, 1500), 200, 1500) } else { (a.n(150, 6000), 80, 250) };
    let mut acc = par_run(a, "c17", tuples, |a, idx, acc| run_tuple(a, "c17", idx, schedules, cap, acc));
    acc.merge(par_run(a, "c17-phys", a.n(4000, 100000), physical_round));
    acc
}
