//! C02 — MemoryFS is a faithful stand-in for PhysicalFS: lock-step differential execution, no model involved.

use crate::cfg::{build, Cfg};
use crate::engine::relation;
use crate::gen::{gen_op, Domain, Universe};
use crate::json::J;
use crate::model::Class;
use crate::ops::{exec, render_res, Op, Out, Res};
use crate::report::{Acc, Violation};
use crate::rng::Rng;
use crate::snapshot::{diff_snaps, snapshot};
use crate::Args;
use std::collections::BTreeSet;
use std::sync::atomic::{AtomicU64, Ordering};
use std::sync::Mutex;

fn out_equal(a: &Out, b: &Out) -> bool {
    match (a, b) {
        (Out::Walk(x), Out::Walk(y)) => {
            let sx: BTreeSet<String> = x.iter().map(|i| i.clone().unwrap_or_else(|e| format!("ERR:{}", e.kind.class3()))).collect();
            let sy: BTreeSet<String> = y.iter().map(|i| i.clone().unwrap_or_else(|e| format!("ERR:{}", e.kind.class3()))).collect();
            sx == sy
        }
        (x, y) => x == y,
    }
}

fn run_history(a: &Args, tag: &'static str, idx: u64, acc: &mut Acc) {
    let mut rng = Rng::derive(a.seed, tag, idx);
    let universe = Universe::generate(&mut rng);
    let mem = build(&Cfg::Mem);
    let phys = build(&Cfg::Phys);
    let mut domain = Domain::typed();
    domain.read_scripts = true;
    // write sessions with seeks, in-place overwrites and intermediate flushes (append sessions stay seek-free:
    // O_APPEND on the physical side differs by design)
    domain.rich_scripts = true;
    domain.big_content_permille = 40;
    let read_buf = *rng.pick(&[1usize, 2, 7, 4096, 8192, 8193]);
    let probe = universe.paths.clone();
    let mut sm = snapshot(&mem.root, &probe, read_buf);
    let mut trace: Vec<String> = vec![];
    let mut prev: BTreeSet<(String, &'static str)> = BTreeSet::new();
    let nsteps = rng.range(8, 25);
    acc.evaluations += 1;
    for step in 1..=nsteps {
        let tree = sm.tree();
        let op = gen_op(&mut rng, &domain, &universe, &tree);
        let class = tree.class(op.path());
        let dclass = op.dest().map(|d| tree.class(d));
        let clsig = match dclass {
            Some(d) => format!("{}->{}", class.name(), d.name()),
            None => class.name().to_string(),
        };
        let rm: Res = exec(&mem.root, &op);
        let rp: Res = exec(&phys.root, &op);
        let am = snapshot(&mem.root, &probe, read_buf);
        let ap = snapshot(&phys.root, &probe, read_buf);
        acc.steps += 1;
        acc.fingerprints.insert(am.fingerprint());
        acc.cell(format!("{}|{}|mem:{}|phys:{}", op.name(), clsig, if rm.is_ok() { "Ok" } else { "Err" }, if rp.is_ok() { "Ok" } else { "Err" }));
        trace.push(format!("{:>2}. {} [{}]  mem => {}   phys => {}", step, op.render(), clsig, render_res(&rm), render_res(&rp)));
        if a.only.is_some() {
            eprintln!("{}", trace.last().unwrap());
        }
        let detail = |what: J| {
            J::obj()
                .set("tag", J::s(tag))
                .set("seed", J::i(a.seed))
                .set("history", J::i(idx))
                .set("names", J::arr(universe.names.iter().map(J::s)))
                .set("step", J::i(step as u64))
                .set("trace", J::arr(trace.iter().map(J::s)))
                .set("what", what)
        };
        let order = idx * 1000 + step as u64;
        // panics are C13's business but end the history here
        let panicked = matches!(&rm, Err(e) if e.panic.is_some()) || matches!(&rp, Err(e) if e.panic.is_some());
        if panicked {
            for (side, r) in [("mem", &rm), ("phys", &rp)] {
                if let Err(e) = r {
                    if let Some(p) = &e.panic {
                        acc.violate(Violation { property: "C13", signature: format!("panic|{}|{}|{}|{}", op.name(), clsig, p.head(), p.file()), summary: format!("{} panicked on {}: {}", op.render(), side, p.message), detail: detail(J::Null), order });
                    }
                }
            }
            break;
        }
        // 1. success / failure agreement
        if rm.is_ok() != rp.is_ok() {
            acc.violate(Violation {
                property: "C02",
                signature: format!("outcome|{}|{}|mem:{}|phys:{}", op.name(), clsig, crate::ops::res_class(&rm), crate::ops::res_class(&rp)),
                summary: format!("{} on target {}: MemoryFS => {} but PhysicalFS => {}", op.render(), clsig, render_res(&rm), render_res(&rp)),
                detail: detail(J::Null),
                order,
            });
        } else if let (Err(em), Err(ep)) = (&rm, &rp) {
            // 2. error classes: demanded for a target missing from an existing directory and for occupied create_dir
            let single_missing = class == Class::Absent && dclass.map(|d| d == Class::Absent).unwrap_or(true);
            let occupied_create = matches!(op, Op::CreateDir(_)) && class.exists();
            // an existing target must never be reported as not-found by one backend only (single-path calls; the
            // transfer operations take different routes on the two backends and are compared on success/failure)
            let existing_target_not_found = op.dest().is_none() && class.exists() && (em.kind.class3() == "NotFound") != (ep.kind.class3() == "NotFound");
            if existing_target_not_found && !em.is_handle_io() && !ep.is_handle_io() {
                acc.violate(Violation {
                    property: "C02",
                    signature: format!("errclass-existing-target|{}|{}|mem:{}|phys:{}", op.name(), clsig, em.kind.class3(), ep.kind.class3()),
                    summary: format!("{} on an existing {}: MemoryFS fails with {} but PhysicalFS with {}", op.render(), clsig, em.kind.name(), ep.kind.name()),
                    detail: detail(J::Null),
                    order,
                });
            }
            if (single_missing || occupied_create) && !em.is_handle_io() && !ep.is_handle_io() && em.kind.class3() != ep.kind.class3() {
                acc.violate(Violation {
                    property: "C02",
                    signature: format!("errclass|{}|{}|mem:{}|phys:{}", op.name(), clsig, em.kind.class3(), ep.kind.class3()),
                    summary: format!("{} on target {}: MemoryFS fails with {} but PhysicalFS with {}", op.render(), clsig, em.kind.name(), ep.kind.name()),
                    detail: detail(J::Null),
                    order,
                });
            }
        } else if let (Ok(om), Ok(op_)) = (&rm, &rp) {
            if !out_equal(om, op_) {
                acc.violate(Violation {
                    property: "C02",
                    signature: format!("value|{}|{}", op.name(), clsig),
                    summary: format!("{}: MemoryFS returned {} but PhysicalFS {}", op.render(), om.render(), op_.render()),
                    detail: detail(J::Null),
                    order,
                });
            }
        }
        // 3. resulting observable tree and bytes
        let d = diff_snaps(&am, &ap);
        let fresh: Vec<&crate::snapshot::Diff> = d.iter().filter(|x| !prev.contains(&(x.path.clone(), x.observer))).collect();
        if let Some(f) = fresh.first() {
            acc.violate(Violation {
                property: "C02",
                signature: format!("state|{}|{}|{}@{}", op.name(), clsig, f.observer, relation(&f.path, &op)),
                summary: format!("after {} the two backends differ at {:?}: {} mem={} phys={}", op.render(), f.path, f.observer, f.expected, f.got),
                detail: detail(J::arr(fresh.iter().take(8).map(|x| J::s(format!("{:?} {}: mem {} phys {}", x.path, x.observer, x.expected, x.got))))),
                order,
            });
        }
        let diverged = !d.is_empty() || rm.is_ok() != rp.is_ok();
        prev = d.into_iter().map(|x| (x.path, x.observer)).collect();
        sm = am;
        if diverged {
            // the two sides are no longer in the same state: later steps would only echo this divergence
            acc.count("histories_ended_at_divergence", 1);
            break;
        }
    }
    if idx < 3 {
        acc.sample(idx, J::obj().set("history", J::i(idx)).set("names", J::arr(universe.names.iter().map(J::s))).set("ops", J::arr(trace.iter().map(J::s))));
    }
}

pub fn run(a: &Args) -> Acc {
    let tag = "c02";
    let n = a.n(9000, 120000);
    let (lo, hi) = match (a.only, a.tag.as_deref()) {
        (Some(i), Some(t)) if t == tag => (i, i + 1),
        (Some(i), None) => (i, i + 1),
        (Some(_), _) => (0, 0),
        _ => (0, n),
    };
    let next = AtomicU64::new(lo);
    let total = Mutex::new(Acc::new());
    std::thread::scope(|s| {
        for _ in 0..a.workers.max(1) {
            s.spawn(|| {
                let mut acc = Acc::new();
                loop {
                    let i = next.fetch_add(1, Ordering::SeqCst);
                    if i >= hi {
                        break;
                    }
                    run_history(a, tag, i, &mut acc);
                }
                total.lock().unwrap().merge(acc);
            });
        }
    });
    total.into_inner().unwrap()
}
