//! C14 — file handles obey Read / Write / Seek: call-by-call comparison with `std::io::Cursor`.
//! (Also used by C13 with extreme offsets: there only panics count.)

use crate::cfg::{build, Built, Cfg};
use crate::json::{bytes_repr, J};
use crate::ops::{at, run_rscript, run_wscript, RStep, ScriptRes, WStep};
use crate::panicmon::guard;
use crate::props::par_run;
use crate::report::{Acc, Violation};
use crate::rng::Rng;
use crate::Args;
use std::io::{Cursor, Read, Seek, SeekFrom, Write};
use vfs::VfsPath;

const LENS: &[usize] = &[0, 1, 2, 7, 255, 4096, 8191, 8192, 8193, 16384, 65537];

pub fn gen_bytes(rng: &mut Rng, quick: bool) -> Vec<u8> {
    if rng.chance(1, 8) {
        return rng.block_bytes();
    }
    let len = if rng.chance(1, 40) && !quick { 200_003 } else { *rng.pick(LENS) };
    let utf8 = rng.chance(1, 2);
    rng.bytes(len, utf8)
}

pub fn gen_read_script(rng: &mut Rng, len: usize, extreme: bool) -> Vec<RStep> {
    let l = len as i64;
    let mut s = vec![];
    for _ in 0..rng.range(1, 12) {
        match rng.below(5) {
            0 | 1 => s.push(RStep::Read(*rng.pick(&[0usize, 1, 2, 3, 7, 64, 4096, 8192, 8193, 70000]))),
            2 | 3 => {
                let whence = rng.below(3) as u8;
                let off: i64 = if extreme {
                    *rng.pick(&[i64::MIN, i64::MIN + 1, -l - 1, -l, -1, 0, 1, l - 1, l, l + 1, i64::MAX, i64::MAX - 1, 1 << 40, -(1 << 40)])
                } else {
                    *rng.pick(&[-l - 1, -l, -l + 1, -8192, -7, -2, -1, 0, 1, 2, 7, 8192, l - 1, l, l + 1, 2 * l + 3, 1 << 40, -(1 << 40)])
                };
                let off = if whence == 0 && !extreme { off.max(0) } else { off };
                s.push(RStep::Seek(whence, off));
            }
            _ => s.push(RStep::ReadToEnd),
        }
    }
    s.push(RStep::Seek(1, 0));
    s
}

fn gen_write_script(rng: &mut Rng, seeks: bool) -> Vec<WStep> {
    let mut s = vec![];
    for _ in 0..rng.range(1, 10) {
        match rng.below(6) {
            0 | 1 | 2 => {
                // a zero-length write beyond the end is not "writing past the end": Cursor's specialised write_all pads,
                // a File does not, and the default write_all never calls write — so empty writes only in seek-free scripts
                let len = if seeks { *rng.pick(&[1usize, 2, 7, 255, 8191, 8192, 8193]) } else { *rng.pick(&[0usize, 1, 2, 7, 255, 8191, 8192, 8193]) };
                s.push(WStep::Write(rng.bytes(len, false)));
            }
            3 | 4 if seeks => {
                let whence = rng.below(3) as u8;
                let off: i64 = if whence == 0 { *rng.pick(&[0i64, 1, 2, 7, 300, 8192, 20000]) } else { *rng.pick(&[-20000i64, -8193, -300, -7, -2, -1, 0, 1, 2, 7, 300, 9000]) };
                s.push(WStep::Seek(whence, off));
            }
            _ => s.push(WStep::Flush),
        }
    }
    if seeks {
        s.push(WStep::Seek(1, 0));
    }
    s
}

pub fn cfg_for_handles(rng: &mut Rng) -> Cfg {
    match rng.below(10) {
        0 | 1 => Cfg::Mem,
        2 => Cfg::Phys,
        3 => Cfg::Alt(Box::new(Cfg::Mem), "/__alt/p".into()),
        4 => Cfg::Alt(Box::new(Cfg::Phys), "/__alt".into()),
        5 => Cfg::Ovl(vec![(Cfg::Mem, "".into()), (Cfg::Mem, "/__lay1".into())]),
        6 => Cfg::Ovl(vec![(Cfg::Phys, "/__lay0".into()), (Cfg::Mem, "".into()), (Cfg::Phys, "".into())]),
        8 => Cfg::Ovl(vec![(Cfg::Mem, "".into()), (Cfg::Mem, "/__lay1".into()), (Cfg::Mem, "".into()), (Cfg::Mem, "".into())]),
        9 => Cfg::OvlShared(Box::new(Cfg::Mem), 3),
        _ => Cfg::Alt(Box::new(Cfg::Ovl(vec![(Cfg::Mem, "".into()), (Cfg::Phys, "".into())])), "/__alt".into()),
    }
}

/// Puts `bytes` at /f of the configuration; for overlays in a lower layer (so that handles see served-from-lower
/// and, after an append, copied-up files).
pub fn place_file(b: &Built, rng: &mut Rng, bytes: &[u8]) -> Result<(VfsPath, &'static str), String> {
    let target = at(&b.root, "/f");
    let mut how = "direct";
    if let Some((ovl, prefix)) = crate::prepop::outer_overlay(b) {
        let views = b.layer_views(ovl);
        if views.len() >= 2 && rng.chance(2, 3) {
            let li = rng.range(1, views.len() - 1);
            let mut tree = std::collections::BTreeMap::new();
            tree.insert("/f".to_string(), crate::model::Node::File(bytes.to_vec()));
            crate::prepop::write_tree(&views[li].1, &prefix, &tree)?;
            // the layers below the serving one hold the same path with other (longer and shorter) bytes: they are shadowed
            for (k, deeper) in views.iter().enumerate().skip(li + 1) {
                let mut decoy = std::collections::BTreeMap::new();
                let mut other = bytes.to_vec();
                if k % 2 == 0 {
                    other.extend_from_slice(b"-shadowed-older-version");
                } else {
                    other.truncate(other.len() / 2);
                    other.push(b'#');
                }
                decoy.insert("/f".to_string(), crate::model::Node::File(other));
                crate::prepop::write_tree(&deeper.1, &prefix, &decoy)?;
            }
            how = "lower-layer";
            return Ok((target, how));
        }
    }
    let mut w = target.create_file().map_err(|e| e.to_string())?;
    w.write_all(bytes).map_err(|e| e.to_string())?;
    w.flush().map_err(|e| e.to_string())?;
    drop(w);
    Ok((target, how))
}

pub fn cmp_results(handle: &[ScriptRes], reference: &[ScriptRes]) -> Option<usize> {
    for (i, (h, r)) in handle.iter().zip(reference.iter()).enumerate() {
        let same = match (h, r) {
            (ScriptRes::Err(_), ScriptRes::Err(_)) => true, // error kinds are not part of the contract
            (a, b) => a == b,
        };
        if !same {
            return Some(i);
        }
    }
    None
}

pub fn render_rs(s: &[ScriptRes]) -> String {
    s.iter()
        .map(|x| match x {
            ScriptRes::N(n) => format!("{}", n),
            ScriptRes::Data(d) => bytes_repr(d),
            ScriptRes::Err(e) => format!("ERR<{}>", e),
            ScriptRes::Done => "ok".into(),
        })
        .collect::<Vec<_>>()
        .join(",")
}

fn step_name_r(s: &RStep) -> String {
    match s {
        RStep::Read(_) => "read".into(),
        RStep::Seek(w, o) => format!("seek{}{}", ["Start", "Current", "End"][*w as usize], if *o < 0 { "-" } else { "+" }),
        RStep::ReadToEnd => "read_to_end".into(),
    }
}

pub fn run_case(a: &Args, tag: &'static str, idx: u64, extreme: bool, acc: &mut Acc) {
    let mut rng = Rng::derive(a.seed, tag, idx);
    let cfg = cfg_for_handles(&mut rng);
    let b = build(&cfg);
    let bytes = gen_bytes(&mut rng, a.tier != "thorough");
    let quick_detail = |what: J, script: String| {
        J::obj().set("tag", J::s(tag)).set("seed", J::i(a.seed)).set("history", J::i(idx)).set("config", J::s(cfg.desc())).set("content", J::s(bytes_repr(&bytes))).set("script", J::s(script)).set("what", what)
    };
    let (path, how) = match place_file(&b, &mut rng, &bytes) {
        Ok(x) => x,
        Err(e) => {
            acc.count("setup_failed", 1);
            acc.note("setup_failures", e);
            return;
        }
    };
    acc.evaluations += 1;
    let order = idx * 10;
    // ---------------- read handle
    let rscript = gen_read_script(&mut rng, bytes.len(), extreme);
    let rs_text = format!("{:?}", rscript);
    let got = guard(|| -> Result<Vec<ScriptRes>, String> {
        let mut r = path.open_file().map_err(|e| e.to_string())?;
        Ok(run_rscript(&mut *r, &rscript))
    });
    acc.fingerprints.insert(crate::rng::Rng::derive(0, &rs_text, bytes.len() as u64).0);
    match got {
        Err(p) => acc.violate(Violation { property: "C13", signature: format!("panic|read-handle|{}|{}|{}", cfg.family(), p.head(), p.file()), summary: format!("read handle script panicked: {} at {} (script {})", p.message, p.location, rs_text), detail: quick_detail(J::Null, rs_text.clone()), order }),
        Ok(Err(e)) => acc.violate(Violation { property: "C14", signature: format!("open-failed|{}|{}", how, cfg.family()), summary: format!("open_file on an existing file failed: {}", e), detail: quick_detail(J::Null, rs_text.clone()), order }),
        Ok(Ok(hres)) => {
            if !extreme {
                let mut c = Cursor::new(bytes.clone());
                let want = run_rscript(&mut c, &rscript);
                acc.steps += rscript.len() as u64;
                if let Some(i) = cmp_results(&hres, &want) {
                    acc.violate(Violation {
                        property: "C14",
                        signature: format!("read-handle|{}|{}|{}", step_name_r(&rscript[i]), how, cfg.family()),
                        summary: format!("read handle differs from std::io::Cursor at step {} ({:?}) on a {}-byte file: handle [{}] cursor [{}]", i, rscript[i], bytes.len(), render_rs(&hres), render_rs(&want)),
                        detail: quick_detail(J::i(i as u64), rs_text.clone()),
                        order,
                    });
                }
                acc.cell(format!("read|{}|{}", how, cfg.family()));
            }
        }
    }
    // ---------------- write handle (create or append)
    let append = rng.chance(1, 2);
    let seeks = !(append && cfg.has_phys());
    let wscript = gen_write_script(&mut rng, seeks);
    let ws_text = format!("{}:{}", if append { "append" } else { "create" }, wscript.iter().map(|x| match x {
        WStep::Write(b) => format!("write({})", bytes_repr(b)),
        WStep::Seek(w, o) => format!("seek({},{})", w, o),
        WStep::Flush => "flush".into(),
    }).collect::<Vec<_>>().join(";"));
    let got = guard(|| -> Result<(Vec<ScriptRes>, Vec<u8>, u64), String> {
        let mut w = if append { path.append_file() } else { path.create_file() }.map_err(|e| e.to_string())?;
        let r = run_wscript(&mut *w, &wscript);
        drop(w);
        let mut back = vec![];
        path.open_file().map_err(|e| e.to_string())?.read_to_end(&mut back).map_err(|e| e.to_string())?;
        let len = path.metadata().map_err(|e| e.to_string())?.len;
        Ok((r, back, len))
    });
    match got {
        Err(p) => acc.violate(Violation { property: "C13", signature: format!("panic|write-handle|{}|{}|{}", cfg.family(), p.head(), p.file()), summary: format!("write handle script panicked: {} at {} (script {})", p.message, p.location, ws_text), detail: quick_detail(J::Null, ws_text.clone()), order }),
        Ok(Err(e)) => acc.violate(Violation { property: "C14", signature: format!("write-session-failed|{}|{}|{}", if append { "append" } else { "create" }, how, cfg.family()), summary: format!("write session on an existing file failed: {}", e), detail: quick_detail(J::Null, ws_text.clone()), order }),
        Ok(Ok((hres, back, len))) => {
            let mut c = Cursor::new(if append { bytes.clone() } else { vec![] });
            if append {
                let _ = c.seek(SeekFrom::End(0));
            }
            let want = run_wscript(&mut c, &wscript);
            let want_bytes = c.into_inner();
            acc.steps += wscript.len() as u64;
            if let Some(i) = cmp_results(&hres, &want) {
                acc.violate(Violation {
                    property: "C14",
                    signature: format!("write-handle|{}|step:{}|{}|{}", if append { "append" } else { "create" }, match &wscript[i] { WStep::Write(_) => "write", WStep::Seek(..) => "seek", WStep::Flush => "flush" }, how, cfg.family()),
                    summary: format!("write handle differs from std::io::Cursor at step {}: handle [{}] cursor [{}] (script {})", i, render_rs(&hres), render_rs(&want), ws_text),
                    detail: quick_detail(J::i(i as u64), ws_text.clone()),
                    order,
                });
            } else if back != want_bytes || len != want_bytes.len() as u64 {
                acc.violate(Violation {
                    property: "C14",
                    signature: format!("published-bytes|{}|{}|{}", if append { "append" } else { "create" }, how, cfg.family()),
                    summary: format!("after drop the file holds {} (metadata.len={}) but the script prescribes {} (script {})", bytes_repr(&back), len, bytes_repr(&want_bytes), ws_text),
                    detail: quick_detail(J::Null, ws_text.clone()),
                    order,
                });
            }
            acc.cell(format!("write|{}|{}|{}", if append { "append" } else { "create" }, how, cfg.family()));
        }
    }
    if idx < 3 {
        acc.sample(idx, J::obj().set("case", J::i(idx)).set("config", J::s(cfg.desc())).set("placed", J::s(how)).set("content", J::s(bytes_repr(&bytes))).set("read_script", J::s(rs_text)).set("write_script", J::s(ws_text)));
    }
    acc.note("config_shapes", cfg.shape());
}

pub fn run(a: &Args) -> Acc {
    let n = a.n(300000, 2000000);
    par_run(a, "c14", n, |a, idx, acc| run_case(a, "c14", idx, false, acc))
}
