//! C19 — timestamps round-trip and are independent of content.
//! Monitor: metadata before/after every setter (no reads in between), pass-through comparison with the
//! underlying filesystem's own metadata, creation time across appends on memory-backed entries.

use crate::cfg::{build, Built, Cfg, Role};
use crate::json::{bytes_repr, J};
use crate::model::Node;
use crate::ops::at;
use crate::panicmon::guard;
use crate::props::par_run;
use crate::report::{Acc, Violation};
use crate::rng::Rng;
use crate::snapshot::read_all;
use crate::Args;
use std::collections::BTreeMap;
use std::io::Write;
use std::sync::OnceLock;
use std::time::{Duration, SystemTime};
use vfs::{VfsMetadata, VfsPath};

fn candidates() -> Vec<SystemTime> {
    let e = SystemTime::UNIX_EPOCH;
    vec![
        e,
        e + Duration::new(0, 1),
        e + Duration::new(1, 999_999_999),
        e + Duration::new(1_000_000_000, 500),
        e + Duration::new(1_700_000_000, 123_456_789),
        e + Duration::new(4_000_000_000, 0),
        e + Duration::new(253_402_300_799, 0),
        e - Duration::new(1, 0),
        e - Duration::new(86_400 * 365 * 50, 250_000_000),
    ]
}

/// Values the host filesystem round-trips exactly when set directly with `filetime` (so the oracle never
/// demands more of PhysicalFS than the OS delivers).
fn calibrated() -> &'static Vec<SystemTime> {
    static C: OnceLock<Vec<SystemTime>> = OnceLock::new();
    C.get_or_init(|| {
        let d = crate::cfg::new_scratch_dir();
        let f = d.join("calib");
        std::fs::write(&f, b"x").unwrap();
        let mut ok = vec![];
        for t in candidates() {
            let ft = filetime::FileTime::from_system_time(t);
            if filetime::set_file_mtime(&f, ft).is_ok() && filetime::set_file_atime(&f, ft).is_ok() {
                if let Ok(m) = std::fs::metadata(&f) {
                    if m.modified().ok() == Some(t) && m.accessed().ok() == Some(t) {
                        ok.push(t);
                    }
                }
            }
        }
        let _ = std::fs::remove_dir_all(&d);
        ok
    })
}

fn cfgs(rng: &mut Rng) -> Cfg {
    match rng.below(9) {
        0 | 1 => Cfg::Mem,
        2 => Cfg::Phys,
        3 => Cfg::Alt(Box::new(Cfg::Mem), "/__alt/p".into()),
        4 => Cfg::Alt(Box::new(Cfg::Phys), "/__alt".into()),
        5 => Cfg::Ovl(vec![(Cfg::Mem, "".into()), (Cfg::Mem, "/__lay1".into())]),
        6 => Cfg::Ovl(vec![(Cfg::Phys, "/__lay0".into()), (Cfg::Phys, "".into()), (Cfg::Mem, "".into())]),
        7 => Cfg::Alt(Box::new(Cfg::Ovl(vec![(Cfg::Mem, "".into()), (Cfg::Phys, "".into())])), "/__alt".into()),
        _ => Cfg::Ovl(vec![(Cfg::Alt(Box::new(Cfg::Mem), "/__alt/p".into()), "".into()), (Cfg::Mem, "".into())]),
    }
}

fn md(p: &VfsPath) -> Result<VfsMetadata, String> {
    p.metadata().map_err(|e| format!("{:?}:{}", crate::ops::ErrInfo::from_vfs(&e).kind, e))
}

fn times(m: &VfsMetadata) -> [Option<SystemTime>; 3] {
    [m.created, m.modified, m.accessed]
}

const FIELD: [&str; 3] = ["created", "modified", "accessed"];

/// metadata of the entry as the filesystem below the outermost adapter reports it
fn underlying_md(b: &Built, p: &str) -> Option<(String, Result<VfsMetadata, String>)> {
    match &b.cfg {
        Cfg::Alt(_, base) => {
            let child = b.nodes.iter().find(|n| matches!(&n.role, Role::AltUnder { of, .. } if *of == 0))?;
            let up = format!("{}{}", base, p);
            Some((format!("underlying {}", up), md(&at(&child.root, &up))))
        }
        Cfg::Ovl(_) | Cfg::OvlShared(..) => {
            for (_, view, _) in b.layer_views(0) {
                let lp = at(&view, p);
                if lp.exists().unwrap_or(false) {
                    return Some(("first layer that has it".into(), md(&lp)));
                }
            }
            None
        }
        _ => None,
    }
}

pub fn run_case(a: &Args, tag: &'static str, idx: u64, acc: &mut Acc) {
    let mut rng = Rng::derive(a.seed, tag, idx);
    let cfg = cfgs(&mut rng);
    let b = build(&cfg);
    let values: Vec<SystemTime> = if cfg.has_phys() { calibrated().clone() } else { candidates() };
    if values.is_empty() {
        acc.inconclusive.push("host filesystem round-trips none of the candidate time values".into());
        return;
    }
    let mut log: Vec<String> = vec![];
    let order = idx * 100;
    // entries: a file and a directory, upper-only / lower-only (overlays)
    let mut contents: BTreeMap<String, Vec<u8>> = BTreeMap::new();
    let flen = *rng.pick(&[0usize, 1, 7, 300]);
    let fbytes = rng.bytes(flen, false);
    let mut placed = "direct";
    let mut lower_only = false;
    if let Some((ovl, prefix)) = crate::prepop::outer_overlay(&b) {
        let views = b.layer_views(ovl);
        if views.len() >= 2 && rng.chance(1, 2) {
            let li = rng.range(1, views.len() - 1);
            let mut tree = BTreeMap::new();
            tree.insert("/d".to_string(), Node::Dir);
            tree.insert("/d/f".to_string(), Node::File(fbytes.clone()));
            tree.insert("/g".to_string(), Node::File(fbytes.clone()));
            if crate::prepop::write_tree(&views[li].1, &prefix, &tree).is_err() {
                acc.count("setup_failed", 1);
                return;
            }
            placed = "lower-layer";
            lower_only = true;
        }
    }
    if placed == "direct" {
        let r = (|| -> Result<(), String> {
            at(&b.root, "/d").create_dir().map_err(|e| e.to_string())?;
            for f in ["/d/f", "/g"] {
                let mut w = at(&b.root, f).create_file().map_err(|e| e.to_string())?;
                w.write_all(&fbytes).map_err(|e| e.to_string())?;
            }
            Ok(())
        })();
        if r.is_err() {
            acc.count("setup_failed", 1);
            return;
        }
    }
    contents.insert("/d/f".into(), fbytes.clone());
    contents.insert("/g".into(), fbytes.clone());
    let copied_up = lower_only && rng.chance(1, 3);
    if copied_up {
        // copy-up through an append
        if let Ok(mut w) = at(&b.root, "/g").append_file() {
            let _ = w.write_all(b"+");
            drop(w);
            contents.get_mut("/g").unwrap().push(b'+');
            placed = "copied-up";
        }
    }
    acc.evaluations += 1;
    let mk = |log: &Vec<String>, what: J| J::obj().set("tag", J::s(tag)).set("seed", J::i(a.seed)).set("history", J::i(idx)).set("config", J::s(cfg.desc())).set("placed", J::s(placed)).set("trace", J::arr(log.iter().map(J::s))).set("what", what);
    let targets = ["/d", "/d/f", "/g"];
    let nsteps = rng.range(3, 9);
    for step in 0..nsteps {
        let p = *rng.pick(&targets);
        let vp = at(&b.root, p);
        let field = rng.below(3);
        let t = *rng.pick(&values);
        let entry_kind = if p == "/d" { "dir" } else { "file" };
        let where_ = if lower_only && !(copied_up && p == "/g") { "lower-only" } else if copied_up && p == "/g" { "copied-up" } else { "upper" };
        let before = match md(&vp) {
            Ok(m) => m,
            Err(e) => {
                acc.violate(Violation { property: "C19", signature: format!("metadata-failed|{}|{}|{}", entry_kind, where_, cfg.family()), summary: format!("metadata({}) failed on an existing entry: {}", p, e), detail: mk(&log, J::Null), order: order + step as u64 });
                return;
            }
        };
        let res = guard(|| match field {
            0 => vp.set_creation_time(t),
            1 => vp.set_modification_time(t),
            _ => vp.set_access_time(t),
        });
        let after = md(&vp);
        log.push(format!("set_{}_time({}, {:?}) => {:?}", FIELD[field], p, t.duration_since(SystemTime::UNIX_EPOCH).map(|d| d.as_nanos() as i128).unwrap_or_else(|e| -(e.duration().as_nanos() as i128)), res.as_ref().map(|r| r.as_ref().map_err(|e| e.to_string())).map_err(|p| p.message.clone())));
        acc.steps += 1;
        let sigbase = format!("set_{}|{}|{}|{}", FIELD[field], entry_kind, where_, cfg.family());
        let res = match res {
            Err(pi) => {
                acc.violate(Violation { property: "C13", signature: format!("panic|set_{}_time|{}|{}|{}", FIELD[field], entry_kind, pi.head(), pi.file()), summary: format!("setter panicked: {}", pi.message), detail: mk(&log, J::Null), order: order + step as u64 });
                return;
            }
            Ok(r) => r,
        };
        let after = match after {
            Ok(m) => m,
            Err(e) => {
                acc.violate(Violation { property: "C19", signature: format!("entry-lost|{}", sigbase), summary: format!("after the setter metadata({}) fails: {}", p, e), detail: mk(&log, J::Null), order: order + step as u64 });
                return;
            }
        };
        let (tb, ta) = (times(&before), times(&after));
        let same_shape = before.file_type == after.file_type && before.len == after.len;
        acc.cell(format!("{}|{}", sigbase, if res.is_ok() { "Ok" } else { "Err" }));
        acc.fingerprints.insert(Rng::derive(field as u64, &sigbase, t.duration_since(SystemTime::UNIX_EPOCH).map(|d| d.as_nanos() as u64).unwrap_or(7)).0);
        match &res {
            Ok(()) => {
                if ta[field] != Some(t) {
                    acc.violate(Violation { property: "C19", signature: format!("not-round-tripped|{}", sigbase), summary: format!("set_{}_time({}, {:?}) returned Ok but metadata reports {:?}", FIELD[field], p, t, ta[field]), detail: mk(&log, J::Null), order: order + step as u64 });
                }
                for o in 0..3 {
                    if o != field && ta[o] != tb[o] {
                        acc.violate(Violation { property: "C19", signature: format!("other-field-changed:{}|{}", FIELD[o], sigbase), summary: format!("set_{}_time({}) changed {} from {:?} to {:?}", FIELD[field], p, FIELD[o], tb[o], ta[o]), detail: mk(&log, J::Null), order: order + step as u64 });
                    }
                }
                if !same_shape {
                    acc.violate(Violation { property: "C19", signature: format!("shape-changed|{}", sigbase), summary: format!("set_{}_time({}) changed type/len from {:?}/{} to {:?}/{}", FIELD[field], p, before.file_type, before.len, after.file_type, after.len), detail: mk(&log, J::Null), order: order + step as u64 });
                }
            }
            Err(e) => {
                let k = crate::ops::ErrInfo::from_vfs(e).kind;
                if k != crate::ops::Kind::NotSupported {
                    acc.violate(Violation { property: "C19", signature: format!("setter-failed:{}|{}", k.name(), sigbase), summary: format!("set_{}_time({}) on an existing {} ({}) failed with {} instead of succeeding or reporting not-supported: {}", FIELD[field], p, entry_kind, where_, k.name(), e), detail: mk(&log, J::Null), order: order + step as u64 });
                }
                if ta != tb || !same_shape {
                    acc.violate(Violation { property: "C19", signature: format!("failed-setter-changed|{}", sigbase), summary: format!("set_{}_time({}) failed yet metadata changed from {:?} to {:?}", FIELD[field], p, tb, ta), detail: mk(&log, J::Null), order: order + step as u64 });
                }
            }
        }
        // adapters report the timestamps of the entry they serve
        if let Some((what, Ok(u))) = underlying_md(&b, p) {
            if times(&u) != ta || u.len != after.len || u.file_type != after.file_type {
                acc.violate(Violation { property: "C19", signature: format!("adapter-times-differ|{}|{}|{}", entry_kind, where_, cfg.family()), summary: format!("{}: adapter reports {:?} but the {} reports {:?}", p, ta, what, times(&u)), detail: mk(&log, J::Null), order: order + step as u64 });
            }
            acc.count("pass_through_comparisons", 1);
        }
        // now and then: a setter issued while a write handle to the same file is open must survive the handle's
        // publish (flush/drop): `created` and `accessed` are not content-related
        if p != "/d" && where_ != "lower-only" && rng.chance(1, 4) {
            let f2 = if rng.chance(1, 2) { 0 } else { 2 };
            let t2 = *rng.pick(&values);
            let served_from_mem = !cfg.has_phys();
            if let Ok(mut w) = vp.append_file() {
                let extra = if rng.chance(1, 2) { vec![b'!'] } else { vec![] };
                let _ = w.write_all(&extra);
                if rng.chance(1, 2) {
                    let _ = w.flush();
                }
                let r = if f2 == 0 { vp.set_creation_time(t2) } else { vp.set_access_time(t2) };
                drop(w);
                contents.get_mut(p).unwrap().extend_from_slice(&extra);
                log.push(format!("append_file({}) open; set_{}_time({:?}) => {:?}; drop handle", p, FIELD[f2], t2.duration_since(SystemTime::UNIX_EPOCH).map(|d| d.as_nanos() as i128).unwrap_or(-1), r.as_ref().map_err(|e| e.to_string())));
                if r.is_ok() && served_from_mem {
                    if let Ok(m) = md(&vp) {
                        if times(&m)[f2] != Some(t2) {
                            acc.violate(Violation { property: "C19", signature: format!("setter-lost-at-handle-publish|set_{}|{}|{}", FIELD[f2], where_, cfg.family()), summary: format!("set_{}_time({}) issued while an append handle was open is lost when the handle is dropped: metadata reports {:?} instead of {:?}", FIELD[f2], p, times(&m)[f2], t2), detail: mk(&log, J::Null), order: order + step as u64 });
                        }
                    }
                }
                acc.count("setters_inside_open_write_session", 1);
            }
        }
        // now and then: an append must preserve `created` on memory-backed entries (and not disturb the bytes model)
        if p != "/d" && rng.chance(1, 4) {
            let b4 = md(&vp).ok();
            if let Ok(mut w) = vp.append_file() {
                let elen = *rng.pick(&[1usize, 5]);
                let extra = rng.bytes(elen, false);
                let _ = w.write_all(&extra);
                drop(w);
                contents.get_mut(p).unwrap().extend_from_slice(&extra);
                log.push(format!("append({}, {})", p, bytes_repr(&extra)));
                if let (Some(x), Ok(y)) = (b4, md(&vp)) {
                    let served_from_mem = !cfg.has_phys() || matches!(&cfg, Cfg::Ovl(l) if l[0].0 == Cfg::Mem) || matches!(&cfg, Cfg::Alt(c, _) if matches!(**c, Cfg::Ovl(ref l) if l[0].0 == Cfg::Mem));
                    let already_upper = where_ != "lower-only";
                    if served_from_mem && already_upper && x.created != y.created {
                        acc.violate(Violation { property: "C19", signature: format!("append-changed-created|{}|{}", where_, cfg.family()), summary: format!("append to {} changed its creation time from {:?} to {:?}", p, x.created, y.created), detail: mk(&log, J::Null), order: order + step as u64 });
                    }
                    if y.len != contents[p].len() as u64 {
                        acc.violate(Violation { property: "C19", signature: format!("append-len|{}|{}", where_, cfg.family()), summary: format!("after an append metadata.len={} but {} bytes were written in total", y.len, contents[p].len()), detail: mk(&log, J::Null), order: order + step as u64 });
                    }
                }
            }
        }
    }
    // bytes are independent of the timestamps
    for (p, want) in &contents {
        match read_all(&at(&b.root, p), 4096) {
            Ok(got) if &got == want => {}
            other => acc.violate(Violation { property: "C19", signature: format!("bytes-changed|{}|{}", placed, cfg.family()), summary: format!("after the timestamp operations {} reads {:?} instead of {}", p, other.map(|b| bytes_repr(&b)).map_err(|e| e.display), bytes_repr(want)), detail: mk(&log, J::Null), order }),
        }
    }
    if idx < 4 {
        acc.sample(idx, J::obj().set("case", J::i(idx)).set("config", J::s(cfg.desc())).set("placed", J::s(placed)).set("trace", J::arr(log.iter().map(J::s))));
    }
    acc.note("config_shapes", cfg.shape());
}

/// The same setter monitor through the async port (C15 leaves timestamps out because AsyncMemoryFS does not
/// implement the setters; "not supported and changes nothing" is exactly what C19 demands of it).
pub fn run_async_case(a: &Args, idx: u64, acc: &mut Acc) {
    use crate::asyncside::{aat, abuild, awrite_tree, block_on};
    let mut rng = Rng::derive(a.seed, "c19-async", idx);
    let cfg = match rng.below(8) {
        0 | 1 => Cfg::Mem,
        2 => Cfg::Phys,
        3 => Cfg::Alt(Box::new(Cfg::Mem), "/__alt/p".into()),
        4 => Cfg::Alt(Box::new(Cfg::Phys), "/__alt".into()),
        5 => Cfg::Ovl(vec![(Cfg::Mem, "".into()), (Cfg::Mem, "/__lay1".into())]),
        6 => Cfg::Ovl(vec![(Cfg::Phys, "/__lay0".into()), (Cfg::Phys, "".into())]),
        _ => Cfg::Alt(Box::new(Cfg::Ovl(vec![(Cfg::Phys, "".into()), (Cfg::Mem, "".into())])), "/__alt".into()),
    };
    let values: Vec<SystemTime> = if cfg.has_phys() { calibrated().clone() } else { candidates() };
    if values.is_empty() {
        return;
    }
    let sched: Vec<u8> = (0..rng.range(1, 6)).map(|_| rng.below(3) as u8).collect();
    let ab = match guard(|| block_on(abuild(&cfg, vec![0]))) {
        Ok(b) => b,
        Err(_) => return,
    };
    let flen = *rng.pick(&[0usize, 1, 7, 300]);
    let fbytes = rng.bytes(flen, false);
    let mut tree = BTreeMap::new();
    tree.insert("/d".to_string(), Node::Dir);
    tree.insert("/d/f".to_string(), Node::File(fbytes.clone()));
    tree.insert("/g".to_string(), Node::File(fbytes.clone()));
    let lower_only = ab.layer_views.len() >= 2 && rng.chance(1, 2);
    let prefix = if matches!(cfg, Cfg::Alt(..)) && lower_only { "/__alt" } else { "" };
    let view = if lower_only { ab.layer_views[ab.layer_views.len() - 1].clone() } else { ab.root.clone() };
    if guard(|| block_on(awrite_tree(&view, prefix, &tree))).map(|r| r.is_err()).unwrap_or(true) {
        acc.count("async_setup_failed", 1);
        return;
    }
    ab.ctl.set_schedule(sched.clone());
    acc.evaluations += 1;
    let where_ = if lower_only { "lower-only" } else { "upper" };
    let mut log: Vec<String> = vec![];
    let mk = |log: &Vec<String>| J::obj().set("tag", J::s("c19-async")).set("seed", J::i(a.seed)).set("history", J::i(idx)).set("config", J::s(format!("async {}", cfg.desc()))).set("placed", J::s(where_)).set("poll_schedule", J::s(format!("{:?}", sched))).set("trace", J::arr(log.iter().map(J::s)));
    let amd = |p: &str| -> Result<VfsMetadata, String> {
        let vp = aat(&ab.root, p);
        match guard(|| block_on(vp.metadata())) {
            Ok(r) => r.map_err(|e| format!("{:?}:{}", crate::ops::ErrInfo::from_vfs(&e).kind, e)),
            Err(pi) => Err(format!("PANIC {}", pi.message)),
        }
    };
    for step in 0..rng.range(3, 9) {
        let p = *rng.pick(&["/d", "/d/f", "/g"]);
        let field = rng.below(3);
        let t = *rng.pick(&values);
        let entry_kind = if p == "/d" { "dir" } else { "file" };
        let order = idx * 100 + step as u64;
        let sigbase = format!("set_{}|{}|{}|{}|async", FIELD[field], entry_kind, where_, cfg.family());
        let before = match amd(p) {
            Ok(m) => m,
            Err(e) => {
                acc.violate(Violation { property: "C19", signature: format!("metadata-failed|{}|{}|{}|async", entry_kind, where_, cfg.family()), summary: format!("async metadata({}) failed on an existing entry: {}", p, e), detail: mk(&log), order });
                return;
            }
        };
        let vp = aat(&ab.root, p);
        let res = guard(|| {
            block_on(async {
                match field {
                    0 => vp.set_creation_time(t).await,
                    1 => vp.set_modification_time(t).await,
                    _ => vp.set_access_time(t).await,
                }
            })
        });
        let after = amd(p);
        log.push(format!("async set_{}_time({}, {:?}) => {:?}", FIELD[field], p, t, res.as_ref().map(|r| r.as_ref().map_err(|e| e.to_string())).map_err(|pi| pi.message.clone())));
        acc.steps += 1;
        let res = match res {
            Err(pi) => {
                acc.violate(Violation { property: "C13", signature: format!("panic|async-set_{}_time|{}|{}|{}", FIELD[field], entry_kind, pi.head(), pi.file()), summary: format!("async setter panicked: {}", pi.message), detail: mk(&log), order });
                return;
            }
            Ok(r) => r,
        };
        let after = match after {
            Ok(m) => m,
            Err(e) => {
                acc.violate(Violation { property: "C19", signature: format!("entry-lost|{}", sigbase), summary: format!("after the async setter metadata({}) fails: {}", p, e), detail: mk(&log), order });
                return;
            }
        };
        let (tb, ta) = (times(&before), times(&after));
        let same_shape = before.file_type == after.file_type && before.len == after.len;
        acc.cell(format!("{}|{}", sigbase, if res.is_ok() { "Ok" } else { "Err" }));
        acc.fingerprints.insert(Rng::derive(field as u64 + 10, &sigbase, t.duration_since(SystemTime::UNIX_EPOCH).map(|d| d.as_nanos() as u64).unwrap_or(7)).0);
        match &res {
            Ok(()) => {
                if ta[field] != Some(t) {
                    acc.violate(Violation { property: "C19", signature: format!("not-round-tripped|{}", sigbase), summary: format!("async set_{}_time({}, {:?}) returned Ok but metadata reports {:?}", FIELD[field], p, t, ta[field]), detail: mk(&log), order });
                }
                for o in 0..3 {
                    if o != field && ta[o] != tb[o] {
                        acc.violate(Violation { property: "C19", signature: format!("other-field-changed:{}|{}", FIELD[o], sigbase), summary: format!("async set_{}_time({}) changed {} from {:?} to {:?}", FIELD[field], p, FIELD[o], tb[o], ta[o]), detail: mk(&log), order });
                    }
                }
                if !same_shape {
                    acc.violate(Violation { property: "C19", signature: format!("shape-changed|{}", sigbase), summary: format!("async set_{}_time({}) changed type/len", FIELD[field], p), detail: mk(&log), order });
                }
            }
            Err(e) => {
                let k = crate::ops::ErrInfo::from_vfs(e).kind;
                if k != crate::ops::Kind::NotSupported {
                    acc.violate(Violation { property: "C19", signature: format!("setter-failed:{}|{}", k.name(), sigbase), summary: format!("async set_{}_time({}) on an existing {} ({}) failed with {} instead of succeeding or reporting not-supported: {}", FIELD[field], p, entry_kind, where_, k.name(), e), detail: mk(&log), order });
                }
                if ta != tb || !same_shape {
                    acc.violate(Violation { property: "C19", signature: format!("failed-setter-changed|{}", sigbase), summary: format!("async set_{}_time({}) failed yet metadata changed from {:?} to {:?}", FIELD[field], p, tb, ta), detail: mk(&log), order });
                }
            }
        }
    }
    // bytes are independent of the timestamps
    for p in ["/d/f", "/g"] {
        let vp = aat(&ab.root, p);
        let got = guard(|| {
            block_on(async {
                use async_std::io::ReadExt;
                let mut r = vp.open_file().await.map_err(|e| e.to_string())?;
                let mut v = vec![];
                r.read_to_end(&mut v).await.map_err(|e| e.to_string())?;
                Ok::<Vec<u8>, String>(v)
            })
        });
        if !matches!(&got, Ok(Ok(v)) if v == &fbytes) {
            acc.violate(Violation { property: "C19", signature: format!("bytes-changed|{}|{}|async", where_, cfg.family()), summary: format!("after the async timestamp operations {} no longer reads its {} bytes", p, fbytes.len()), detail: mk(&log), order: idx * 100 });
        }
    }
    if idx < 2 {
        acc.sample(1000 + idx, J::obj().set("async_case", J::i(idx)).set("config", J::s(format!("async {}", cfg.desc()))).set("placed", J::s(where_)).set("trace", J::arr(log.iter().map(J::s))));
    }
    acc.count("async_cases", 1);
}

pub fn run(a: &Args) -> Acc {
    let n = a.n(80000, 600000);
    let mut acc = par_run(a, "c19", n, |a, idx, acc| run_case(a, "c19", idx, acc));
    acc.merge(par_run(a, "c19-async", a.n(4000, 40000), run_async_case));
    acc.note("calibrated_physical_values", format!("{} of {} candidate values round-trip on the host filesystem", calibrated().len(), candidates().len()));
    acc
}
