//! C20 — underlying failures are never reported as success (fault enumeration).
//! For each sampled (configuration, pre-state, operation): count the calls N the fault-free run makes into the
//! wrapped filesystems, then for EVERY k = 1..N rebuild the pre-state, make the k-th call fail, and compare.

use crate::cfg::{build, Built, Cfg};
use crate::gen::{gen_op, Domain, Universe};
use crate::json::J;
use crate::model::Model;
use crate::ops::{exec, render_res, Op, Out, Res};
use crate::prepop::{apply_plan, gen_plan, outer_overlay, Plan};
use crate::props::par_run;
use crate::report::{Acc, Violation};
use crate::rng::Rng;
use crate::snapshot::snapshot;
use crate::Args;
use std::collections::BTreeSet;

fn cfgs(rng: &mut Rng) -> Cfg {
    match rng.below(10) {
        0 => Cfg::Mem,
        1 => Cfg::Phys,
        2 | 3 => Cfg::Alt(Box::new(Cfg::Mem), "/__alt/p".into()),
        4 => Cfg::Ovl(vec![(Cfg::Mem, "".into()), (Cfg::Mem, "/__lay1".into())]),
        5 => Cfg::OvlShared(Box::new(Cfg::Mem), 2),
        6 => Cfg::Ovl(vec![(Cfg::Mem, "/__lay0".into()), (Cfg::Mem, "".into()), (Cfg::Mem, "".into())]),
        7 => Cfg::Alt(Box::new(Cfg::Ovl(vec![(Cfg::Mem, "".into()), (Cfg::Mem, "".into())])), "/__alt".into()),
        8 => Cfg::Ovl(vec![(Cfg::Alt(Box::new(Cfg::Mem), "/__alt/p".into()), "".into()), (Cfg::Phys, "".into())]),
        _ => Cfg::Ovl(vec![(Cfg::Phys, "".into()), (Cfg::Mem, "/__lay1".into())]),
    }
}

struct Case {
    cfg: Cfg,
    plan: Option<Plan>,
    prefix: Vec<Op>,
}

fn make_state(c: &Case) -> Option<Built> {
    let b = build(&c.cfg);
    if let Some(p) = &c.plan {
        apply_plan(&b, p).ok()?;
    }
    for op in &c.prefix {
        let _ = exec(&b.root, op);
    }
    Some(b)
}

fn value_equal(a: &Out, b: &Out) -> bool {
    match (a, b) {
        (Out::Walk(x), Out::Walk(y)) => {
            let sx: BTreeSet<&String> = x.iter().filter_map(|i| i.as_ref().ok()).collect();
            let sy: BTreeSet<&String> = y.iter().filter_map(|i| i.as_ref().ok()).collect();
            sx == sy
        }
        (x, y) => x == y,
    }
}

pub fn run_case(a: &Args, tag: &'static str, idx: u64, handle_dim: bool, acc: &mut Acc) {
    let mut rng = Rng::derive(a.seed, tag, idx);
    let cfg = cfgs(&mut rng);
    let universe = Universe::generate(&mut rng);
    // ---- plan the case on a scratch instance: pre-population, prefix history, operation
    let planning = build(&cfg);
    let mut plan = None;
    if let Some((ovl, prefix)) = outer_overlay(&planning) {
        let n = planning.layer_views(ovl).len();
        if n >= 2 {
            let p = gen_plan(&mut rng, &universe, n, ovl, prefix);
            if apply_plan(&planning, &p).is_err() {
                acc.count("setup_failed", 1);
                return;
            }
            plan = Some(p);
        }
    }
    let mut typed = Domain::typed();
    typed.avoid = a.avoid.clone();
    let mut prefix = vec![];
    let nprefix = rng.range(0, 6);
    let probe = universe.paths.clone();
    // directed pre-state (one case in four on overlays): a lower-layer entry is removed through the overlay first,
    // so that the operation under test meets the overlay's deletion bookkeeping for that name
    let mut recreate_at: Option<String> = None;
    if let Some(pl) = &plan {
        if rng.chance(1, 4) && !pl.lower_paths.is_empty() {
            let cands: Vec<&String> = pl.lower_paths.iter().collect();
            let l = (*rng.pick(&cands)).clone();
            let tree = snapshot(&planning.root, &probe, 4096).tree();
            let rm = match tree.class(&l) {
                crate::model::Class::File => Some(Op::RemoveFile(l.clone())),
                c if c.is_dir() => Some(Op::RemoveDirAll(l.clone())),
                _ => None,
            };
            if let Some(rm) = rm {
                if !crate::engine::avoid_match(&a.avoid, &rm, &tree, &cfg) && exec(&planning.root, &rm).is_ok() {
                    prefix.push(rm);
                    recreate_at = Some(l);
                }
            }
        }
    }
    for _ in 0..nprefix {
        let tree = snapshot(&planning.root, &probe, 4096).tree();
        let op = gen_op(&mut rng, &typed, &universe, &tree);
        if crate::engine::avoid_match(&a.avoid, &op, &tree, &cfg) {
            continue;
        }
        let _ = exec(&planning.root, &op);
        prefix.push(op);
    }
    let pre_tree: Model = snapshot(&planning.root, &probe, 4096).tree();
    let mut d = Domain::typed();
    d.weights = vec![
        ("create_dir_all", 8), ("remove_dir_all", 8), ("copy_file", 8), ("move_file", 8), ("copy_dir", 8), ("move_dir", 8), ("walk_dir", 6), ("read_to_string", 5),
        ("create_dir", 3), ("create_file", 3), ("append_file", 3), ("remove_file", 3), ("remove_dir", 3), ("open_read", 2), ("read_dir", 2), ("metadata", 2), ("exists", 2), ("is_file", 2), ("is_dir", 2),
    ];
    let mut op = gen_op(&mut rng, &d, &universe, &pre_tree);
    if let Some(l) = recreate_at.filter(|l| pre_tree.class(l) == crate::model::Class::Absent) {
        let files: Vec<&String> = universe.paths.iter().filter(|p| pre_tree.class(p) == crate::model::Class::File).collect();
        let dirs: Vec<&String> = universe.paths.iter().filter(|p| pre_tree.class(p).is_dir() && !crate::model::is_under(&l, p) && **p != l).collect();
        op = match rng.below(6) {
            0 | 1 => Op::CreateFile(l.clone(), vec![crate::ops::WStep::Write(b"new".to_vec())]),
            2 => Op::CreateDir(l.clone()),
            3 if !files.is_empty() => Op::CopyFile((*rng.pick(&files)).clone(), l.clone()),
            4 if !files.is_empty() => Op::MoveFile((*rng.pick(&files)).clone(), l.clone()),
            5 if !dirs.is_empty() => Op::CopyDir((*rng.pick(&dirs)).clone(), l.clone()),
            _ => Op::CreateDirAll(l.clone()),
        };
        acc.count("cases_recreating_a_removed_lower_entry", 1);
    }
    for _ in 0..20 {
        if !crate::engine::avoid_match(&a.avoid, &op, &pre_tree, &cfg) {
            break;
        }
        op = gen_op(&mut rng, &d, &universe, &pre_tree);
    }
    drop(planning);
    let case = Case { cfg: cfg.clone(), plan, prefix };
    let class = pre_tree.class(op.path());
    let clsig = match op.dest() { Some(x) => format!("{}->{}", class.name(), pre_tree.class(x).name()), None => class.name().to_string() };
    // ---- fault-free run in counting mode
    let b0 = match make_state(&case) {
        Some(b) => b,
        None => {
            acc.count("setup_failed", 1);
            return;
        }
    };
    b0.ctl.arm(0, usize::MAX);
    b0.ctl.arm_handle(0);
    let res0: Res = exec(&b0.root, &op);
    let (n_calls, _, n_hcalls, _) = b0.ctl.disarm();
    let full = snapshot(&b0.root, &probe, 4096).tree();
    drop(b0);
    acc.evaluations += 1;
    if let Err(e) = &res0 {
        if e.panic.is_some() {
            return; // C13's business
        }
    }
    let mk = |k: u64, dim: &str, what: J| {
        J::obj().set("tag", J::s(tag)).set("seed", J::i(a.seed)).set("history", J::i(idx)).set("config", J::s(cfg.desc())).set("names", J::arr(universe.names.iter().map(J::s)))
            .set("layers", J::arr(case.plan.iter().flat_map(|p| p.render()).map(J::s))).set("prefix", J::arr(case.prefix.iter().map(|o| J::s(o.render())))).set("op", J::s(op.render())).set("target_class", J::s(&clsig))
            .set("fault_free_result", J::s(render_res(&res0))).set("calls_in_fault_free_run", J::i(n_calls)).set("fault_dimension", J::s(dim)).set("k", J::i(k)).set("what", what)
    };
    let (dim, n) = if handle_dim { ("handle", n_hcalls) } else { ("call", n_calls) };
    acc.cell(format!("{}|{}|{}|{}|N={}", op.name(), clsig, cfg.family(), dim, n.min(40)));
    for k in 1..=n {
        let b = match make_state(&case) {
            Some(b) => b,
            None => {
                acc.count("setup_failed", 1);
                return;
            }
        };
        let lowers = b.lower_regions();
        b.ctl.start_recording();
        if handle_dim {
            b.ctl.arm(0, usize::MAX);
            b.ctl.arm_handle(k);
        } else {
            b.ctl.arm(k, usize::MAX);
        }
        let res = exec(&b.root, &op);
        let (_, inj, _, hinj) = b.ctl.disarm();
        let events = b.ctl.stop_recording();
        if inj + hinj == 0 {
            acc.count("fault_position_not_reached", 1);
            continue;
        }
        acc.steps += 1;
        acc.count("injected_runs", 1);
        let failed = events.iter().find(|e| e.injected);
        let fsig = failed.map(|e| format!("{}@{}", e.method, if crate::cfg::event_in_regions(e, &lowers) { "lower".to_string() } else { format!("{}{}", b.nodes[e.node].kind, if e.node == 0 { "(top)" } else { "" }) })).unwrap_or_else(|| "handle-io".into());
        acc.fingerprints.insert(Rng::derive(k, &format!("{}|{}|{}|{}", op.name(), clsig, cfg.shape(), fsig), 0).0);
        let order = idx * 1000 + k;
        let after = snapshot(&b.root, &probe, 4096).tree();
        // never modifies a lower layer, success or not
        if let Some(e) = events.iter().find(|e| e.is_mutating() && crate::cfg::event_in_regions(e, &lowers)) {
            acc.violate(Violation { property: "C20", signature: format!("lower-mutated-under-fault|{}|{}|{}|{}", op.name(), clsig, fsig, cfg.family()), summary: format!("with {} failing, {} issued {} on a lower layer", fsig, op.render(), e.render()), detail: mk(k, dim, J::arr(events.iter().take(60).map(|e| J::s(e.render())))), order });
        }
        match &res {
            Err(e) if e.panic.is_some() => {
                let p = e.panic.as_ref().unwrap();
                acc.violate(Violation { property: "C20", signature: format!("panic-under-fault|{}|{}|{}|{}", op.name(), fsig, p.head(), p.file()), summary: format!("with {} failing, {} panicked: {} at {}", fsig, op.render(), p.message, p.location), detail: mk(k, dim, J::arr(events.iter().take(60).map(|e| J::s(e.render())))), order });
            }
            Err(_) => {
                acc.count("faults_reported_as_error", 1);
            }
            Ok(out) => {
                let yielded_err = matches!(out, Out::Walk(items) if items.iter().any(|i| i.is_err()));
                if yielded_err {
                    acc.count("faults_yielded_as_error_item", 1);
                    continue;
                }
                let value_ok = match &res0 {
                    Ok(o0) => value_equal(o0, out),
                    Err(_) => false,
                };
                let effect_ok = after == full;
                if res0.is_err() {
                    // the fault-free run fails, the faulted run claims success
                    acc.violate(Violation { property: "C20", signature: format!("success-where-fault-free-fails|{}|{}|{}|{}", op.name(), clsig, fsig, cfg.family()), summary: format!("with {} failing, {} returned Ok {} although the fault-free run fails with {}", fsig, op.render(), out.render(), render_res(&res0)), detail: mk(k, dim, J::arr(events.iter().take(60).map(|e| J::s(e.render())))), order });
                } else if !effect_ok {
                    let diff: Vec<String> = full.m.keys().chain(after.m.keys()).filter(|p| full.m.get(*p) != after.m.get(*p)).cloned().collect::<BTreeSet<_>>().into_iter().collect();
                    acc.violate(Violation { property: "C20", signature: format!("success-with-partial-effect|{}|{}|{}|{}", op.name(), clsig, fsig, cfg.family()), summary: format!("with {} failing, {} returned Ok but the tree differs from the full effect at {:?}", fsig, op.render(), diff), detail: mk(k, dim, J::arr(events.iter().take(60).map(|e| J::s(e.render())))), order });
                } else if !value_ok {
                    acc.violate(Violation { property: "C20", signature: format!("success-with-wrong-value|{}|{}|{}|{}", op.name(), clsig, fsig, cfg.family()), summary: format!("with {} failing, {} returned Ok {} but the fault-free value is {}", fsig, op.render(), out.render(), render_res(&res0)), detail: mk(k, dim, J::arr(events.iter().take(60).map(|e| J::s(e.render())))), order });
                } else {
                    acc.count("faults_absorbed_with_full_effect", 1);
                }
            }
        }
    }
    if idx < 4 {
        acc.sample(idx, J::obj().set("case", J::i(idx)).set("config", J::s(cfg.desc())).set("prefix", J::arr(case.prefix.iter().map(|o| J::s(o.render())))).set("op", J::s(op.render())).set("target_class", J::s(&clsig)).set("fault_positions_enumerated", J::i(n)).set("dimension", J::s(dim)));
    }
    acc.note("config_shapes", cfg.shape());
}

pub fn run(a: &Args) -> Acc {
    let n = a.n(6000, 80000);
    let mut acc = par_run(a, "c20-calls", n, |a, idx, acc| run_case(a, "c20-calls", idx, false, acc));
    let nh = a.n(2000, 30000);
    acc.merge(par_run(a, "c20-handles", nh, |a, idx, acc| run_case(a, "c20-handles", idx, true, acc)));
    acc
}
