//! C05 at the root of a filesystem whose root directory is absent (removed while empty, an altroot whose directory
//! was never created or was removed underneath, an overlay layer without its directory): the observers must still
//! tell one story about the root.

use crate::cfg::{build, Cfg, Role};
use crate::json::J;
use crate::ops::at;
use crate::report::{Acc, Violation};
use crate::snapshot::{check_consistency, snapshot};
use crate::Args;
use vfs::{AltrootFS, MemoryFS, OverlayFS, VfsPath};

pub fn run(a: &Args) -> Acc {
    let mut acc = Acc::new();
    let probe: Vec<String> = vec!["/a".into(), "/a/b".into()];
    let mut cases: Vec<(String, VfsPath)> = vec![];
    // (1) root removed while empty, on every plain configuration and simple adapter
    for cfg in [Cfg::Mem, Cfg::Phys, Cfg::Alt(Box::new(Cfg::Mem), "/__alt/p".into()), Cfg::Alt(Box::new(Cfg::Phys), "/__alt".into())] {
        let b = build(&cfg);
        let r = b.root.remove_dir();
        let root = b.root.clone();
        // keep the scratch directories of physical configurations alive until the process ends (a handful)
        std::mem::forget(b);
        cases.push((format!("{} after remove_dir(root) => {}", cfg.desc(), if r.is_ok() { "Ok" } else { "Err" }), root));
    }
    // (2) altroot whose directory was removed through the underlying filesystem / never existed
    {
        let b = build(&Cfg::Alt(Box::new(Cfg::Mem), "/__alt/p".into()));
        if let Some(under) = b.nodes.iter().find(|n| matches!(&n.role, Role::AltUnder { of, .. } if *of == 0)) {
            let _ = at(&under.root, "/__alt/p").remove_dir();
        }
        cases.push(("Alt(Mem@/__alt/p) whose directory was removed through the underlying filesystem".into(), b.root.clone()));
        let under: VfsPath = MemoryFS::new().into();
        cases.push(("AltrootFS over a directory that was never created".into(), AltrootFS::new(under.join("missing").unwrap()).into()));
    }
    // (3) overlays with a layer whose directory does not exist
    {
        let upper: VfsPath = MemoryFS::new().into();
        let lower_fs: VfsPath = MemoryFS::new().into();
        let _ = lower_fs.join("a").unwrap().create_dir();
        let ghost = lower_fs.join("ghost").unwrap();
        // (a missing UPPER layer directory is not probed: the overlay's own root would be absent from the start while
        // lower entries show through — an overlay built over something that is not a directory, outside the property)
        cases.push(("Ovl[Mem, Mem@/ghost (missing)]".into(), OverlayFS::new(&[upper.clone(), ghost.clone()]).into()));
        let _ = lower_fs;
    }
    for (i, (name, root)) in cases.iter().enumerate() {
        let snap = snapshot(root, &probe, 4096);
        acc.evaluations += 1;
        acc.steps += snap.calls;
        acc.fingerprints.insert(crate::rng::Rng::derive(i as u64, name, 5).0);
        for (m, p, e) in snap.panics() {
            let pi = e.panic.clone().unwrap();
            acc.violate(Violation { property: "C13", signature: format!("panic|root-absent:{}|{}|{}", m, pi.head(), pi.file()), summary: format!("{}({:?}) panicked on {}: {}", m, p, name, pi.message), detail: J::s(name), order: i as u64 });
        }
        let root_gone = snap.obs.get("").map(|o| matches!(o.exists, Ok(false)) && o.meta.is_err()).unwrap_or(false);
        for v in check_consistency(&snap) {
            // "the walk of the root succeeds" presupposes a root
            if v.rule == "walk-root-err" && root_gone {
                continue;
            }
            acc.violate(Violation {
                property: "C05",
                signature: format!("root-absent|{}|{}", v.rule, if v.path.is_empty() { "root" } else { "below" }),
                summary: format!("{}: {} at {:?}: {}", name, v.rule, v.path, v.detail),
                detail: J::obj().set("tag", J::s("c05-root-absent")).set("seed", J::i(a.seed)).set("case", J::s(name)),
                order: i as u64,
            });
        }
        acc.cell(format!("root-absent|case{}", i));
        if i < 2 {
            acc.sample(9000 + i as u64, J::obj().set("root_absent_case", J::s(name)));
        }
    }
    acc
}
