//! C16 — MemoryFS under concurrent use: recorded concurrent histories must be explainable by a sequential
//! execution of the same library calls (program order respected), the final tree must be well-formed, nothing
//! may panic or deadlock. Engines: baton scheduler over the `verif-hooks` yield points (random, PCT, sweep).
//! The sequential specification is the implementation itself, re-executed call by call on a fresh MemoryFS.

use std::sync::atomic::Ordering::SeqCst;
use crate::json::{bytes_repr, J};
use crate::ops::at;
use crate::panicmon::guard;
use crate::props::par_run;
use crate::report::{Acc, Violation};
use crate::rng::Rng;
use crate::sched::{pct_source, Baton, RunEnd, Source};
use crate::snapshot::{check_structure, snapshot};
use crate::Args;
use std::collections::{BTreeMap, BTreeSet, HashMap};
use std::io::{Read, Write};
use std::sync::{Arc, Mutex};
use std::time::Duration;
use vfs::{MemoryFS, SeekAndWrite, VfsFileType, VfsPath};

#[derive(Clone, Debug, PartialEq, Eq, Hash)]
pub enum POp {
    CreateDir(String),
    /// create_file, write bytes into the private buffer, drop (= flush)
    CreateWrite(String, Vec<u8>),
    AppendWrite(String, Vec<u8>),
    RemoveFile(String),
    RemoveDir(String),
    Exists(String),
    Metadata(String),
    ReadDir(String),
    OpenRead(String),
}

impl POp {
    pub fn render(&self) -> String {
        match self {
            POp::CreateDir(p) => format!("create_dir({})", p),
            POp::CreateWrite(p, b) => format!("create_file({})+write({})+drop", p, bytes_repr(b)),
            POp::AppendWrite(p, b) => format!("append_file({})+write({})+drop", p, bytes_repr(b)),
            POp::RemoveFile(p) => format!("remove_file({})", p),
            POp::RemoveDir(p) => format!("remove_dir({})", p),
            POp::Exists(p) => format!("exists({})", p),
            POp::Metadata(p) => format!("metadata({})", p),
            POp::ReadDir(p) => format!("read_dir({})", p),
            POp::OpenRead(p) => format!("open_file({})+read", p),
        }
    }
    pub fn kind(&self) -> &'static str {
        match self {
            POp::CreateDir(_) => "create_dir",
            POp::CreateWrite(..) => "create_file",
            POp::AppendWrite(..) => "append_file",
            POp::RemoveFile(_) => "remove_file",
            POp::RemoveDir(_) => "remove_dir",
            POp::Exists(_) => "exists",
            POp::Metadata(_) => "metadata",
            POp::ReadDir(_) => "read_dir",
            POp::OpenRead(_) => "open_file",
        }
    }
    pub fn path(&self) -> &str {
        match self {
            POp::CreateDir(p) | POp::RemoveFile(p) | POp::RemoveDir(p) | POp::Exists(p) | POp::Metadata(p) | POp::ReadDir(p) | POp::OpenRead(p) => p,
            POp::CreateWrite(p, _) | POp::AppendWrite(p, _) => p,
        }
    }
}

/// One atomic unit of the sequential specification = one library call.
#[derive(Clone, Debug, PartialEq, Eq, Hash)]
pub enum Call {
    Path(POp),          // single-call operations (for the write ops: the open call)
    Publish(usize),     // flush+drop of the handle opened by the op with this index of the same thread
}

#[derive(Clone, Debug, PartialEq, Eq, Hash, PartialOrd, Ord)]
pub enum CRes {
    Ok,
    Err,
    Bool(bool),
    Meta(bool, u64),
    Names(Vec<String>),
    Bytes(Vec<u8>),
    Skipped,
}

impl CRes {
    pub fn render(&self) -> String {
        match self {
            CRes::Bytes(b) => format!("bytes({})", bytes_repr(b)),
            o => format!("{:?}", o),
        }
    }
}

#[derive(Clone, Debug)]
pub struct Program {
    pub pre: Vec<(String, Option<Vec<u8>>)>,
    pub threads: Vec<Vec<POp>>,
}

impl Program {
    pub fn render(&self) -> Vec<String> {
        let mut v = vec![format!("pre-state: {:?}", self.pre.iter().map(|(p, c)| match c { None => format!("{}/", p), Some(b) => format!("{}={}", p, bytes_repr(b)) }).collect::<Vec<_>>())];
        for (i, t) in self.threads.iter().enumerate() {
            v.push(format!("T{}: {}", i, t.iter().map(|o| o.render()).collect::<Vec<_>>().join("; ")));
        }
        v
    }
}

const PATHS: &[&str] = &["/d", "/d/x", "/d/f", "/g", "/d/x/y"];

pub fn gen_program(rng: &mut Rng) -> Program {
    let pre = match rng.below(4) {
        0 => vec![("/d".to_string(), None), ("/d/f".to_string(), Some(b"0123".to_vec()))],
        1 => vec![("/d".to_string(), None), ("/d/f".to_string(), Some(b"0123".to_vec())), ("/g".to_string(), Some(b"g".to_vec()))],
        2 => vec![("/d".to_string(), None), ("/d/x".to_string(), None)],
        _ => vec![("/d".to_string(), None)],
    };
    let nthreads = if rng.chance(2, 3) { 2 } else { 3 };
    let mut threads = vec![];
    // a focus set of 2-3 paths makes the threads collide
    let mut pool: Vec<&str> = PATHS.to_vec();
    rng.shuffle(&mut pool);
    let focus = &pool[..rng.range(2, 3)];
    for _ in 0..nthreads {
        let nops = rng.range(1, if nthreads == 2 { 3 } else { 2 });
        let mut t = vec![];
        for _ in 0..nops {
            let p = rng.pick(focus).to_string();
            let len = rng.range(1, 3);
            let bytes = rng.bytes(len, true);
            t.push(match rng.below(12) {
                0 | 1 => POp::CreateDir(p),
                2 | 3 => POp::CreateWrite(p, bytes),
                4 => POp::AppendWrite(p, bytes),
                5 | 6 => POp::RemoveFile(p),
                7 | 8 => POp::RemoveDir(p),
                9 => if rng.chance(1, 2) { POp::Exists(p) } else { POp::Metadata(p) },
                10 => POp::ReadDir(p),
                _ => POp::OpenRead(p),
            });
        }
        threads.push(t);
    }
    Program { pre, threads }
}

pub fn fresh(pre: &[(String, Option<Vec<u8>>)]) -> VfsPath {
    let root = VfsPath::new(MemoryFS::new());
    for (p, c) in pre {
        match c {
            None => at(&root, p).create_dir().unwrap(),
            Some(b) => at(&root, p).create_file().unwrap().write_all(b).unwrap(),
        }
    }
    root
}

fn do_call(root: &VfsPath, op: &POp) -> (CRes, Option<Box<dyn SeekAndWrite + Send>>) {
    let p = at(root, op.path());
    match op {
        POp::CreateDir(_) => (if p.create_dir().is_ok() { CRes::Ok } else { CRes::Err }, None),
        POp::CreateWrite(_, b) => match p.create_file() {
            Ok(mut h) => {
                let _ = h.write_all(b);
                (CRes::Ok, Some(h))
            }
            Err(_) => (CRes::Err, None),
        },
        POp::AppendWrite(_, b) => match p.append_file() {
            Ok(mut h) => {
                let _ = h.write_all(b);
                (CRes::Ok, Some(h))
            }
            Err(_) => (CRes::Err, None),
        },
        POp::RemoveFile(_) => (if p.remove_file().is_ok() { CRes::Ok } else { CRes::Err }, None),
        POp::RemoveDir(_) => (if p.remove_dir().is_ok() { CRes::Ok } else { CRes::Err }, None),
        POp::Exists(_) => (p.exists().map(CRes::Bool).unwrap_or(CRes::Err), None),
        POp::Metadata(_) => (p.metadata().map(|m| CRes::Meta(m.file_type == VfsFileType::Directory, m.len)).unwrap_or(CRes::Err), None),
        POp::ReadDir(_) => (
            p.read_dir()
                .map(|it| {
                    let mut v: Vec<String> = it.map(|c| c.filename()).collect();
                    v.sort();
                    CRes::Names(v)
                })
                .unwrap_or(CRes::Err),
            None,
        ),
        POp::OpenRead(_) => (
            match p.open_file() {
                Ok(mut r) => {
                    let mut v = vec![];
                    match r.read_to_end(&mut v) {
                        Ok(_) => CRes::Bytes(v),
                        Err(_) => CRes::Err,
                    }
                }
                Err(_) => CRes::Err,
            },
            None,
        ),
    }
}

/// The calls a thread makes, in program order.
pub fn calls_of(t: &[POp]) -> Vec<Call> {
    let mut v = vec![];
    for (i, op) in t.iter().enumerate() {
        v.push(Call::Path(op.clone()));
        if matches!(op, POp::CreateWrite(..) | POp::AppendWrite(..)) {
            v.push(Call::Publish(i));
        }
    }
    v
}

pub type FinalTree = BTreeMap<String, Option<Vec<u8>>>;

pub fn final_tree(root: &VfsPath) -> FinalTree {
    let probe: Vec<String> = PATHS.iter().map(|s| s.to_string()).collect();
    let s = snapshot(root, &probe, 4096);
    s.tree().m.into_iter().map(|(k, n)| (k, match n { crate::model::Node::Dir => None, crate::model::Node::File(b) => Some(b) })).collect()
}

#[derive(Clone, Debug, PartialEq, Eq, Hash)]
pub struct Outcome {
    pub results: Vec<Vec<CRes>>,
    pub fin: Vec<(String, Option<Vec<u8>>)>,
}

/// Searches for a sequential order of the same calls (program order respected) that reproduces every result
/// and the final tree. Returns (found, candidate prefixes executed).
pub fn serialisable(prog: &Program, out: &Outcome, budget: &mut u64) -> Option<bool> {
    let calls: Vec<Vec<Call>> = prog.threads.iter().map(|t| calls_of(t)).collect();
    let n: usize = calls.iter().map(|c| c.len()).sum();
    // DFS over positions; each node re-executes its prefix on a fresh filesystem
    fn replay(prog: &Program, calls: &[Vec<Call>], order: &[usize], out: &Outcome) -> Option<VfsPath> {
        let root = fresh(&prog.pre);
        let mut pos = vec![0usize; calls.len()];
        let mut handles: HashMap<(usize, usize), Option<Box<dyn SeekAndWrite + Send>>> = HashMap::new();
        for &t in order {
            let c = &calls[t][pos[t]];
            let got = match c {
                Call::Path(op) => {
                    let (r, h) = do_call(&root, op);
                    if h.is_some() {
                        // index of the op within the thread = number of Path calls so far
                        let opi = calls[t][..pos[t]].iter().filter(|c| matches!(c, Call::Path(_))).count();
                        handles.insert((t, opi), h);
                    }
                    r
                }
                Call::Publish(opi) => match handles.remove(&(t, *opi)) {
                    Some(Some(h)) => {
                        drop(h);
                        CRes::Ok
                    }
                    _ => CRes::Skipped,
                },
            };
            if got != out.results[t][pos[t]] {
                return None;
            }
            pos[t] += 1;
        }
        Some(root)
    }
    fn dfs(prog: &Program, calls: &[Vec<Call>], order: &mut Vec<usize>, pos: &mut Vec<usize>, n: usize, out: &Outcome, budget: &mut u64) -> Option<bool> {
        if *budget == 0 {
            return None;
        }
        *budget -= 1;
        let root = match replay(prog, calls, order, out) {
            Some(r) => r,
            None => return Some(false),
        };
        if order.len() == n {
            let fin: Vec<(String, Option<Vec<u8>>)> = final_tree(&root).into_iter().collect();
            return Some(fin == out.fin);
        }
        for t in 0..calls.len() {
            if pos[t] < calls[t].len() {
                order.push(t);
                pos[t] += 1;
                let r = dfs(prog, calls, order, pos, n, out, budget);
                pos[t] -= 1;
                order.pop();
                match r {
                    Some(true) => return Some(true),
                    None => return None,
                    Some(false) => {}
                }
            }
        }
        Some(false)
    }
    let mut order = vec![];
    let mut pos = vec![0usize; calls.len()];
    dfs(prog, &calls, &mut order, &mut pos, n, out, budget)
}

type Job = Box<dyn FnOnce() + Send>;

/// Re-usable program threads of one worker (spawning threads per execution does not scale: mmap contention).
pub struct Pool {
    tx: Vec<std::sync::mpsc::Sender<Job>>,
    done: std::sync::mpsc::Receiver<usize>,
    slots: Vec<std::sync::Arc<crate::panicmon::Slot>>,
}

impl Pool {
    pub fn new(n: usize) -> Pool {
        let (dtx, drx) = std::sync::mpsc::channel::<usize>();
        let mut tx = vec![];
        let mut slots = vec![];
        for i in 0..n {
            let (jtx, jrx) = std::sync::mpsc::channel::<Job>();
            let dtx = dtx.clone();
            let (stx, srx) = std::sync::mpsc::channel();
            std::thread::spawn(move || {
                let _ = stx.send(crate::panicmon::my_slot());
                while let Ok(job) = jrx.recv() {
                    job();
                    if dtx.send(i).is_err() {
                        break;
                    }
                }
            });
            tx.push(jtx);
            if let Ok(slot) = srx.recv() {
                slots.push(slot);
            }
        }
        Pool { tx, done: drx, slots }
    }
    /// The pool's threads are stuck inside library calls (diagnosed deadlock): leave them behind, and tell the
    /// per-call watchdog that they have been accounted for.
    pub fn abandon(self) {
        for s in &self.slots {
            s.abandon();
        }
    }
    pub fn submit(&mut self, i: usize, job: Job) {
        self.tx[i].send(job).expect("pool thread alive");
    }
    pub fn wait_all(&mut self, n: usize) {
        for _ in 0..n {
            let _ = self.done.recv();
        }
    }
}

thread_local! {
    static POOL: std::cell::RefCell<Option<Pool>> = const { std::cell::RefCell::new(None) };
}

pub struct Exec {
    pub outcome: Outcome,
    pub trace: Vec<(usize, &'static str)>,
    pub decisions: Vec<usize>,
    pub widths: Vec<usize>,
    pub end: RunEnd,
    pub panics: Vec<String>,
    pub ill_formed: Vec<String>,
    /// the first attempt hit the wall-clock limit of the deadlock detector and the schedule was replayed
    pub rerun_after_timeout: bool,
}

/// Runs the program once under the baton scheduler. A thread that does not come back from a library call within
/// 1.5 s is a suspected deadlock; wall-clock time is not a verdict on a loaded machine, so the same decisions are
/// replayed with a 20 s limit and only a deadlock that shows again is reported.
pub fn execute(prog: &Program, source: &mut Source) -> Exec {
    let ex = execute_once(prog, source, 1500);
    if let RunEnd::Deadlock(_) = ex.end {
        // once a deadlock has been confirmed in this process, further suspicions are not replayed (20 s each)
        if crate::panicmon::CONFIRMED_DEADLOCKS.load(SeqCst) > 0 {
            return ex;
        }
        let mut src = Source::Script { script: ex.decisions.clone(), widths: vec![] };
        let mut ex2 = execute_once(prog, &mut src, 20_000);
        ex2.rerun_after_timeout = true;
        if let RunEnd::Deadlock(_) = ex2.end {
            crate::panicmon::CONFIRMED_DEADLOCKS.fetch_add(1, SeqCst);
        }
        return ex2;
    }
    ex
}

fn execute_once(prog: &Program, source: &mut Source, stuck_ms: u64) -> Exec {
    let root = fresh(&prog.pre);
    let baton = Baton::new(prog.threads.len());
    let results: Arc<Mutex<Vec<Vec<CRes>>>> = Arc::new(Mutex::new(prog.threads.iter().map(|t| vec![CRes::Skipped; calls_of(t).len()]).collect()));
    let panics: Arc<Mutex<Vec<String>>> = Arc::new(Mutex::new(vec![]));
    let mut pool = POOL.with(|p| p.borrow_mut().take()).unwrap_or_else(|| Pool::new(3));
    for (i, t) in prog.threads.iter().enumerate() {
        let (baton, root, t, results, panics) = (baton.clone(), root.clone(), t.clone(), results.clone(), panics.clone());
        pool.submit(i, Box::new(move || {
            let b2 = baton.clone();
            vfs::verif_hooks::set_thread_hook(Some(Box::new(move |label| b2.yield_point(i, label))));
            baton.yield_point(i, "start");
            let mut ci = 0usize;
            for op in &t {
                baton.yield_point(i, "call");
                let r = guard(|| do_call(&root, op));
                match r {
                    Ok((res, h)) => {
                        results.lock().unwrap()[i][ci] = res;
                        ci += 1;
                        if matches!(op, POp::CreateWrite(..) | POp::AppendWrite(..)) {
                            baton.yield_point(i, "call");
                            let r2 = guard(move || {
                                let had = h.is_some();
                                drop(h);
                                had
                            });
                            match r2 {
                                Ok(had) => results.lock().unwrap()[i][ci] = if had { CRes::Ok } else { CRes::Skipped },
                                Err(p) => panics.lock().unwrap().push(format!("T{} publish of {}: {} at {}", i, op.render(), p.message, p.location)),
                            }
                            ci += 1;
                        }
                    }
                    Err(p) => {
                        panics.lock().unwrap().push(format!("T{} {}: {} at {}", i, op.render(), p.message, p.location));
                        break;
                    }
                }
            }
            vfs::verif_hooks::set_thread_hook(None);
            baton.finish(i);
        }));
    }
    let rr = baton.control(source, Duration::from_millis(stuck_ms));
    if rr.end == RunEnd::Completed {
        pool.wait_all(prog.threads.len());
        POOL.with(|p| *p.borrow_mut() = Some(pool));
    } else {
        // on deadlock the pool (with its stuck threads, which hold the filesystem's lock) is abandoned
        pool.abandon();
    }
    let (fin, ill) = if rr.end == RunEnd::Completed {
        let probe: Vec<String> = PATHS.iter().map(|s| s.to_string()).collect();
        let s = snapshot(&root, &probe, 4096);
        let ill: Vec<String> = check_structure(&s).into_iter().map(|v| format!("{} at {}", v.rule, v.path)).collect();
        (final_tree(&root).into_iter().collect(), ill)
    } else {
        (vec![], vec![])
    };
    let results = results.lock().unwrap().clone();
    let panics = panics.lock().unwrap().clone();
    Exec { outcome: Outcome { results, fin }, trace: rr.trace, decisions: rr.decisions, widths: rr.widths, end: rr.end, panics, ill_formed: ill, rerun_after_timeout: false }
}

fn trace_text(trace: &[(usize, &'static str)]) -> String {
    trace.iter().map(|(t, l)| format!("T{}@{}", t, l.trim_start_matches("memory::"))).collect::<Vec<_>>().join(" ")
}

fn classify(prog: &Program, ex: &Exec) -> String {
    // signature: the set of operation kinds whose lock-level steps were interleaved with another thread's steps,
    // reduced to the pair (victim kind @ label it was preempted at, intruding kinds)
    let mut parts: BTreeSet<String> = BTreeSet::new();
    let mut last: Option<usize> = None;
    let mut inside: Vec<Option<&'static str>> = vec![None; prog.threads.len()];
    for (t, l) in &ex.trace {
        if let Some(prev) = last {
            if prev != *t {
                if let Some(lbl) = inside[prev] {
                    parts.insert(format!("preempted-before:{}", lbl.trim_start_matches("memory::")));
                }
            }
        }
        inside[*t] = if *l == "call" || *l == "start" { None } else { Some(l) };
        last = Some(*t);
    }
    let kinds: BTreeSet<&str> = prog.threads.iter().flatten().map(|o| o.kind()).collect();
    format!("{}|ops:{}", parts.into_iter().collect::<Vec<_>>().join(","), kinds.into_iter().collect::<Vec<_>>().join("+"))
}

/// Directed programs around the check-then-act windows named in the property's anchors (always swept completely).
pub fn directed_programs() -> Vec<Program> {
    let d = || ("/d".to_string(), None);
    let f = || ("/d/f".to_string(), Some(b"0123".to_vec()));
    let s = |x: &str| x.to_string();
    vec![
        Program { pre: vec![d()], threads: vec![vec![POp::RemoveDir(s("/d"))], vec![POp::CreateDir(s("/d/x"))]] },
        Program { pre: vec![d()], threads: vec![vec![POp::RemoveDir(s("/d"))], vec![POp::CreateWrite(s("/d/f"), b"ab".to_vec())]] },
        Program { pre: vec![d(), f()], threads: vec![vec![POp::RemoveFile(s("/d/f")), POp::RemoveDir(s("/d"))], vec![POp::CreateWrite(s("/d/f"), b"ab".to_vec())]] },
        Program { pre: vec![d()], threads: vec![vec![POp::CreateDir(s("/d/x"))], vec![POp::CreateDir(s("/d/x"))]] },
        Program { pre: vec![d()], threads: vec![vec![POp::CreateDir(s("/d/x"))], vec![POp::CreateWrite(s("/d/x"), b"ab".to_vec())]] },
        Program { pre: vec![d(), f()], threads: vec![vec![POp::AppendWrite(s("/d/f"), b"A".to_vec())], vec![POp::AppendWrite(s("/d/f"), b"B".to_vec())], vec![POp::OpenRead(s("/d/f"))]] },
        Program { pre: vec![d(), f()], threads: vec![vec![POp::RemoveFile(s("/d/f")), POp::CreateDir(s("/d/f"))], vec![POp::OpenRead(s("/d/f")), POp::Metadata(s("/d/f"))]] },
        Program { pre: vec![d(), ("/d/x".to_string(), None)], threads: vec![vec![POp::RemoveDir(s("/d/x")), POp::RemoveDir(s("/d"))], vec![POp::CreateDir(s("/d/x/y"))], vec![POp::ReadDir(s("/d"))]] },
        Program { pre: vec![d()], threads: vec![vec![POp::RemoveDir(s("/d")), POp::CreateWrite(s("/d"), b"z".to_vec())], vec![POp::CreateDir(s("/d/x"))]] },
    ]
}

pub fn run_program(a: &Args, tag: &'static str, idx: u64, schedules: u64, sweep_cap: u64, acc: &mut Acc) {
    if crate::panicmon::CONFIRMED_DEADLOCKS.load(SeqCst) >= 3 {
        // every further program would cost seconds of waiting for threads that never come back
        acc.count("programs_skipped_after_confirmed_deadlocks", 1);
        return;
    }
    let mut rng = Rng::derive(a.seed, tag, idx);
    let directed = directed_programs();
    let (prog, sweep_cap) = if tag == "c16-directed" { (directed[idx as usize % directed.len()].clone(), sweep_cap * 8) } else { (gen_program(&mut rng), sweep_cap) };
    let mut seen_outcomes: HashMap<Outcome, bool> = HashMap::new();
    let mut distinct_traces: BTreeSet<u64> = BTreeSet::new();
    acc.count("programs", 1);
    let mut report = |acc: &mut Acc, ex: &Exec, rule: &str, summary: String, strategy: &str| {
        acc.violate(Violation {
            property: "C16",
            signature: format!("{}|{}", rule, classify(&prog, ex)),
            summary,
            detail: J::obj()
                .set("tag", J::s(tag))
                .set("seed", J::i(a.seed))
                .set("history", J::i(idx))
                .set("program", J::arr(prog.render().iter().map(J::s)))
                .set("strategy", J::s(strategy))
                .set("schedule", J::s(trace_text(&ex.trace)))
                .set("decisions", J::s(format!("{:?}", ex.decisions)))
                .set("results", J::arr(ex.outcome.results.iter().enumerate().map(|(i, r)| J::s(format!("T{}: {}", i, r.iter().map(|x| x.render()).collect::<Vec<_>>().join(", "))))))
                .set("final_tree", J::s(format!("{:?}", ex.outcome.fin.iter().map(|(p, c)| match c { None => format!("{}/", p), Some(b) => format!("{}={}", p, bytes_repr(b)) }).collect::<Vec<_>>()))),
            order: idx * 100000 + ex.decisions.len() as u64,
        });
    };
    let mut handle = |acc: &mut Acc, ex: Exec, strategy: &str, seen_outcomes: &mut HashMap<Outcome, bool>, distinct_traces: &mut BTreeSet<u64>| {
        acc.evaluations += 1;
        acc.steps += ex.trace.len() as u64;
        let mut h = 0xcbf29ce484222325u64;
        for (t, l) in &ex.trace {
            h = (h ^ (*t as u64 + 1)).wrapping_mul(0x100000001b3);
            for b in l.bytes() {
                h = (h ^ b as u64).wrapping_mul(0x100000001b3);
            }
        }
        if distinct_traces.insert(h) {
            acc.fingerprints.insert(h ^ idx.wrapping_mul(0x9E3779B97F4A7C15));
        }
        if ex.rerun_after_timeout {
            acc.count("suspected_deadlocks_replayed_with_long_limit", 1);
        }
        if let RunEnd::Deadlock(stuck) = &ex.end {
            report(acc, &ex, "deadlock", format!("threads {:?} never came back from a library call (blocked on a lock) under schedule {}", stuck, trace_text(&ex.trace)), strategy);
            return false;
        }
        if !ex.panics.is_empty() {
            report(acc, &ex, "panic", format!("panic in a program thread: {}", ex.panics.join(" | ")), strategy);
            acc.violate(Violation { property: "C13", signature: format!("panic|concurrent|{}", ex.panics[0].split(':').nth(1).unwrap_or("").chars().filter(|c| !c.is_ascii_digit()).take(50).collect::<String>()), summary: ex.panics.join(" | "), detail: J::arr(prog.render().iter().map(J::s)), order: idx });
            return false;
        }
        if !ex.ill_formed.is_empty() {
            report(acc, &ex, "ill-formed-final-tree", format!("after the concurrent program the tree is ill-formed: {:?}", ex.ill_formed), strategy);
        }
        let known = seen_outcomes.get(&ex.outcome).cloned();
        let ok = match known {
            Some(v) => v,
            None => {
                let mut budget = 200_000u64;
                acc.count("distinct_outcomes_checked", 1);
                let r = serialisable(&prog, &ex.outcome, &mut budget);
                acc.count("checker_prefix_executions", 200_000 - budget);
                match r {
                    Some(v) => {
                        seen_outcomes.insert(ex.outcome.clone(), v);
                        v
                    }
                    None => {
                        acc.count("checker_budget_exhausted", 1);
                        true
                    }
                }
            }
        };
        if !ok && known.is_none() {
            report(acc, &ex, "not-serialisable", format!("no sequential order of the same calls reproduces the results and the final tree (schedule {})", trace_text(&ex.trace)), strategy);
        }
        true
    };
    // 1. sweep of all schedules (depth-first over decision sequences) while the budget lasts
    let mut stack: Vec<(usize, usize)> = vec![];
    let mut sweep_runs = 0u64;
    let mut complete = false;
    loop {
        let script: Vec<usize> = stack.iter().map(|x| x.0).collect();
        let mut src = Source::Script { script, widths: vec![] };
        let ex = execute(&prog, &mut src);
        sweep_runs += 1;
        let widths = ex.widths.clone();
        let decisions = ex.decisions.clone();
        let alive = handle(acc, ex, "sweep", &mut seen_outcomes, &mut distinct_traces);
        if !alive {
            break;
        }
        // extend the stack with the decisions taken beyond the script
        for k in stack.len()..decisions.len() {
            stack.push((decisions[k], widths[k]));
        }
        while let Some((c, w)) = stack.last().cloned() {
            if c + 1 < w {
                stack.last_mut().unwrap().0 = c + 1;
                break;
            }
            stack.pop();
        }
        if stack.is_empty() {
            complete = true;
            break;
        }
        if sweep_runs >= sweep_cap {
            break;
        }
    }
    if complete {
        acc.count("programs_swept_exhaustively", 1);
        acc.count("schedules_in_exhaustive_sweeps", sweep_runs);
    } else {
        // 2. random and PCT schedules
        for s in 0..schedules {
            let mut srng = Rng::derive(a.seed ^ idx, "c16-sched", s);
            let mut src = if s % 3 == 2 { pct_source(&mut srng, prog.threads.len(), 2, 24) } else { Source::Random(srng) };
            let ex = execute(&prog, &mut src);
            if !handle(acc, ex, if s % 3 == 2 { "pct" } else { "random" }, &mut seen_outcomes, &mut distinct_traces) {
                break;
            }
        }
    }
    acc.count("distinct_schedules", distinct_traces.len() as u64);
    if idx < 3 {
        acc.sample(idx, J::obj().set("program", J::arr(prog.render().iter().map(J::s))).set("distinct_schedules_run", J::i(distinct_traces.len() as u64)).set("swept_exhaustively", J::Bool(complete)).set("distinct_outcomes", J::i(seen_outcomes.len() as u64)));
    }
}

pub fn run(a: &Args) -> Acc {
    let programs = a.n(400, 5000);
    let (schedules, cap) = if a.tier == "thorough" { (400, 3000) } else { (120, 400) };
    let mut acc = par_run(a, "c16-directed", directed_programs().len() as u64, |a, idx, acc| run_program(a, "c16-directed", idx, schedules, cap, acc));
    acc.merge(par_run(a, "c16", programs, |a, idx, acc| run_program(a, "c16", idx, schedules, cap, acc)));
    acc
}
