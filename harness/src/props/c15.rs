//! C15 — the async port is behaviourally identical to the sync API, independently of poll schedules.
//! Lock-step differential: one script on a sync configuration and on K async twins whose every
//! AsyncFileSystem call / directory stream item is delayed by injected `Pending`s (PendingFs).

use crate::asyncside::{abuild, aexec, asnapshot, awalk, awrite_tree, block_on, ABuilt};
use crate::cfg::{build, gen_cfg, Cfg};
use crate::engine::relation;
use crate::gen::{gen_op, Domain, Universe};
use crate::json::J;
use crate::model::{parent_of, Class, Node};
use crate::ops::{exec, render_res, Op, Out, Res};
use crate::panicmon::guard;
use crate::prepop::{apply_plan, gen_plan, outer_overlay};
use crate::props::par_run;
use crate::report::{Acc, Violation};
use crate::rng::Rng;
use crate::snapshot::{diff_snaps, snapshot};
use crate::Args;
use std::collections::{BTreeMap, BTreeSet};
use std::sync::atomic::Ordering;
use vfs::async_vfs::AsyncVfsPath;

fn cfgs(rng: &mut Rng) -> Cfg {
    // async-std file I/O goes through a blocking thread pool (~100 us and several futex calls per operation), so
    // configurations with a physical backend are a minority and run with a reduced universe (see run_case)
    match rng.below(16) {
        0 | 1 | 2 | 3 => Cfg::Mem,
        4 => Cfg::Phys,
        5 | 6 => Cfg::Alt(Box::new(Cfg::Mem), "/__alt/p".into()),
        7 => Cfg::Alt(Box::new(Cfg::Phys), "/__alt".into()),
        8 | 9 | 10 => Cfg::Ovl(vec![(Cfg::Mem, "".into()), (Cfg::Mem, "/__lay1".into())]),
        11 => Cfg::Ovl(vec![(if rng.chance(1, 2) { Cfg::Mem } else { Cfg::Phys }, "/__lay0".into()), (if rng.chance(1, 2) { Cfg::Mem } else { Cfg::Phys }, "".into())]),
        12 | 13 | 14 => gen_cfg(rng, 2, false, 3),
        _ => gen_cfg(rng, 2, true, 2),
    }
}

fn schedules(rng: &mut Rng, k: usize) -> Vec<Vec<u8>> {
    let mut v = vec![vec![0u8], vec![1u8]];
    while v.len() < k {
        let len = rng.range(5, 23);
        let style = rng.below(3);
        v.push((0..len).map(|_| match style { 0 => rng.below(3) as u8, 1 => if rng.chance(1, 6) { 5 } else { 0 }, _ => rng.below(2) as u8 }).collect());
    }
    v.truncate(k);
    v
}

fn walk_ok(items: &[Result<String, crate::ops::ErrInfo>], start: &str) -> Result<BTreeSet<String>, String> {
    let mut seen = BTreeSet::new();
    for it in items {
        match it {
            Err(e) => return Err(format!("Err item {}", e.kind.name())),
            Ok(p) => {
                let par = parent_of(p);
                if par != start && !seen.contains(&par) {
                    return Err(format!("{} yielded before its directory", p));
                }
                if !seen.insert(p.clone()) {
                    return Err(format!("{} yielded twice", p));
                }
            }
        }
    }
    Ok(seen)
}

fn same_value(s: &Out, a: &Out, op: &Op) -> Result<(), String> {
    match (s, a) {
        (Out::Walk(x), Out::Walk(y)) => {
            let (sx, sy) = (walk_ok(x, op.path()), walk_ok(y, op.path()));
            match (sx, sy) {
                (Ok(a), Ok(b)) if a == b => Ok(()),
                (a, b) => Err(format!("sync walk {:?} async walk {:?}", a, b)),
            }
        }
        (x, y) if x == y => Ok(()),
        (x, y) => Err(format!("sync {} async {}", x.render(), y.render())),
    }
}

pub fn run_case(a: &Args, tag: &'static str, idx: u64, k: usize, acc: &mut Acc) {
    let mut rng = Rng::derive(a.seed, tag, idx);
    let cfg = cfgs(&mut rng);
    let slow = cfg.has_phys();
    let universe = if slow { Universe::new(vec![*rng.pick(&["a", "é", "a.b"]), *rng.pick(&["ab", "b", ".h"])], 2) } else { Universe::generate(&mut rng) };
    let k = if slow { 2 } else { k };
    let t_case = std::time::Instant::now();
    let sb = build(&cfg);
    let scheds = schedules(&mut rng, k);
    let mut abs: Vec<ABuilt> = vec![];
    for s in &scheds {
        match guard(|| block_on(abuild(&cfg, s.clone()))) {
            Ok(b) => abs.push(b),
            Err(p) => {
                acc.violate(Violation { property: "C13", signature: format!("panic|async-setup|{}|{}", p.head(), p.file()), summary: format!("building the async configuration panicked: {}", p.message), detail: J::s(cfg.desc()), order: idx });
                return;
            }
        }
    }
    // identical pre-population of the outermost overlay in both worlds
    let mut layers_txt = vec![];
    if let Some((ovl, prefix)) = outer_overlay(&sb) {
        let n = sb.layer_views(ovl).len();
        if n >= 2 {
            let plan = gen_plan(&mut rng, &universe, n, ovl, prefix);
            layers_txt = plan.render();
            if apply_plan(&sb, &plan).is_err() {
                acc.count("setup_failed", 1);
                return;
            }
            for ab in &abs {
                let saved: Vec<u8> = ab.ctl.schedule.lock().unwrap().clone();
                ab.ctl.set_schedule(vec![0]);
                for (i, view) in ab.layer_views.iter().enumerate() {
                    if i < plan.layers.len() {
                        let tree: BTreeMap<String, Node> = plan.layers[i].clone();
                        if guard(|| block_on(awrite_tree(view, &plan.prefix, &tree))).map(|r| r.is_err()).unwrap_or(true) {
                            acc.count("setup_failed", 1);
                            return;
                        }
                    }
                }
                ab.ctl.set_schedule(saved);
            }
        }
    }
    // the differential oracle needs no specification: one third of the scripts also contain the calls C01 leaves
    // unspecified (wrong-typed transfer sources, root targets) — whatever the sync API does, the async port must do
    let mut domain = if idx % 3 == 2 {
        let mut d = Domain::untyped();
        d.weights.retain(|w| w.0 != "set_time");
        d.hold_handles = false;
        d
    } else {
        Domain::typed()
    };
    domain.read_scripts = true;
    let probe = universe.paths.clone();
    let mut trace: Vec<String> = vec![];
    let mut ss = snapshot(&sb.root, &probe, 4096);
    let mut prev: Vec<BTreeSet<(String, &'static str)>> = vec![BTreeSet::new(); abs.len()];
    acc.evaluations += 1;
    let nsteps = if slow { rng.range(3, 5) } else { rng.range(6, 18) };
    let mk = |trace: &Vec<String>, sched: &Vec<u8>, what: J| J::obj().set("tag", J::s(tag)).set("seed", J::i(a.seed)).set("history", J::i(idx)).set("config", J::s(cfg.desc())).set("names", J::arr(universe.names.iter().map(J::s))).set("layers", J::arr(layers_txt.iter().map(J::s))).set("poll_schedule", J::s(format!("{:?}", sched))).set("trace", J::arr(trace.iter().map(J::s))).set("what", what);
    'steps: for step in 1..=nsteps {
        let tree = ss.tree();
        let op = gen_op(&mut rng, &domain, &universe, &tree);
        let class = tree.class(op.path());
        let dclass = op.dest().map(|d| tree.class(d));
        let clsig = match dclass { Some(d) => format!("{}->{}", class.name(), d.name()), None => class.name().to_string() };
        let rs: Res = exec(&sb.root, &op);
        let ns = snapshot(&sb.root, &probe, 4096);
        acc.steps += 1;
        acc.fingerprints.insert(ns.fingerprint());
        acc.cell(format!("{}|{}|{}|{}", op.name(), clsig, if rs.is_ok() { "Ok" } else { "Err" }, cfg.family()));
        trace.push(format!("{:>2}. {} [{}] sync => {}", step, op.render(), clsig, render_res(&rs)));
        let order = idx * 1000 + step as u64;
        for (i, ab) in abs.iter().enumerate() {
            let ra: Res = aexec(&ab.root, &op);
            let na = asnapshot(&ab.root, &probe);
            let sched = &scheds[i];
            if a.only.is_some() {
                eprintln!("{}   async[{:?}] => {}", trace.last().unwrap(), sched, render_res(&ra));
            }
            if let Err(e) = &ra {
                if let Some(p) = &e.panic {
                    acc.violate(Violation { property: "C13", signature: format!("panic|async:{}|{}|{}|{}", op.name(), clsig, p.head(), p.file()), summary: format!("async {} panicked: {} at {}", op.render(), p.message, p.location), detail: mk(&trace, sched, J::Null), order });
                    acc.violate(Violation { property: "C15", signature: format!("async-panic|{}|{}", op.name(), clsig), summary: format!("async {} panicked: {} at {}", op.render(), p.message, p.location), detail: mk(&trace, sched, J::Null), order });
                    break 'steps;
                }
            }
            for (m, p, e) in na.panics() {
                let pi = e.panic.clone().unwrap();
                acc.violate(Violation { property: "C13", signature: format!("panic|async-observer:{}|{}|{}", m, pi.head(), pi.file()), summary: format!("async observer {}({:?}) panicked: {}", m, p, pi.message), detail: mk(&trace, sched, J::Null), order });
                break 'steps;
            }
            let sched_kind = if i == 0 { "no-pending" } else { "with-pending" };
            let mut diverged = false;
            match (&rs, &ra) {
                (Ok(x), Ok(y)) => {
                    if let Err(m) = same_value(x, y, &op) {
                        diverged = true;
                        acc.violate(Violation { property: "C15", signature: format!("value|{}|{}|{}|{}", op.name(), clsig, sched_kind, cfg.family()), summary: format!("{}: {}", op.render(), m), detail: mk(&trace, sched, J::Null), order });
                    }
                }
                (Err(x), Err(y)) => {
                    let single_missing = class == Class::Absent && dclass.map(|d| d == Class::Absent).unwrap_or(true);
                    let occupied_create = matches!(op, Op::CreateDir(_)) && class.exists();
                    if (single_missing || occupied_create) && !x.is_handle_io() && !y.is_handle_io() && x.kind.class3() != y.kind.class3() {
                        acc.violate(Violation { property: "C15", signature: format!("errclass|{}|{}|sync:{}|async:{}|{}", op.name(), clsig, x.kind.class3(), y.kind.class3(), cfg.family()), summary: format!("{}: sync fails with {} but async with {}", op.render(), x.kind.name(), y.kind.name()), detail: mk(&trace, sched, J::Null), order });
                    }
                }
                (x, y) => {
                    diverged = true;
                    acc.violate(Violation { property: "C15", signature: format!("outcome|{}|{}|sync:{}|async:{}|{}|{}", op.name(), clsig, crate::ops::res_class(x), crate::ops::res_class(y), sched_kind, cfg.family()), summary: format!("{}: sync => {} but async => {}", op.render(), render_res(x), render_res(y)), detail: mk(&trace, sched, J::Null), order });
                }
            }
            let d = diff_snaps(&ns, &na);
            let fresh: Vec<&crate::snapshot::Diff> = d.iter().filter(|x| !prev[i].contains(&(x.path.clone(), x.observer))).collect();
            if let Some(f) = fresh.first() {
                diverged = true;
                acc.violate(Violation { property: "C15", signature: format!("state|{}|{}|{}@{}|{}|{}", op.name(), clsig, f.observer, relation(&f.path, &op), sched_kind, cfg.family()), summary: format!("after {} the sync and async worlds differ at {:?}: {} sync={} async={}", op.render(), f.path, f.observer, f.expected, f.got), detail: mk(&trace, sched, J::arr(fresh.iter().take(6).map(|x| J::s(format!("{:?} {}: sync {} async {}", x.path, x.observer, x.expected, x.got))))), order });
            }
            // walk order / uniqueness of the async stream in the quiescent state
            if let Ok(items) = &na.walk {
                if let Err(m) = walk_ok(items, "") {
                    if ns.walk.as_ref().map(|w| walk_ok(w, "").is_ok()).unwrap_or(false) {
                        acc.violate(Violation { property: "C15", signature: format!("walk-stream|{}|{}", sched_kind, cfg.family()), summary: format!("async walk_dir stream of the root: {}", m), detail: mk(&trace, sched, J::Null), order });
                    }
                }
            }
            prev[i] = d.into_iter().map(|x| (x.path, x.observer)).collect();
            if diverged {
                acc.count("histories_ended_at_divergence", 1);
                break 'steps;
            }
        }
        ss = ns;
    }
    for ab in &abs {
        acc.count("injection_points", ab.ctl.points.load(Ordering::SeqCst));
        acc.count("pendings_injected", ab.ctl.pendings.load(Ordering::SeqCst));
    }
    if idx < 3 {
        acc.sample(idx, J::obj().set("case", J::i(idx)).set("config", J::s(cfg.desc())).set("poll_schedules", J::arr(scheds.iter().map(|s| J::s(format!("{:?}", s))))).set("ops", J::arr(trace.iter().map(J::s))));
    }
    acc.note("config_shapes", cfg.shape());
    acc.count(&format!("ms_in_family_{}", cfg.family()), t_case.elapsed().as_millis() as u64);
    acc.count(&format!("cases_in_family_{}", cfg.family()), 1);
}

/// Complete sweep over all 2^M pending patterns of a walk_dir stream on a small tree.
pub fn walk_sweep(a: &Args, idx: u64, max_points: u32, acc: &mut Acc) {
    let mut rng = Rng::derive(a.seed, "c15-walk-sweep", idx);
    let cfg = match idx % 3 { 0 => Cfg::Mem, 1 => Cfg::Alt(Box::new(Cfg::Mem), "/__alt".into()), _ => Cfg::Ovl(vec![(Cfg::Mem, "".into()), (Cfg::Mem, "".into())]) };
    // small tree: the number of injection points of a full walk must stay <= max_points
    let mut tree: BTreeMap<String, Node> = BTreeMap::new();
    let shape = rng.below(4);
    match shape {
        0 => { tree.insert("/d".into(), Node::Dir); tree.insert("/d/f".into(), Node::File(b"x".to_vec())); }
        1 => { tree.insert("/a".into(), Node::Dir); tree.insert("/b".into(), Node::Dir); }
        2 => { tree.insert("/f".into(), Node::File(b"1".to_vec())); tree.insert("/d".into(), Node::Dir); tree.insert("/d/e".into(), Node::Dir); }
        _ => { tree.insert("/d".into(), Node::Dir); }
    }
    let sb = build(&cfg);
    if crate::prepop::write_tree(&sb.root, "", &tree).is_err() {
        return;
    }
    let want = match crate::snapshot::walk(&sb.root, "") { Ok(w) => walk_ok(&w, ""), Err(e) => Err(e.display) };
    let ab = match guard(|| block_on(abuild(&cfg, vec![0]))) { Ok(b) => b, Err(_) => return };
    if guard(|| block_on(awrite_tree(&ab.root, "", &tree))).map(|r| r.is_err()).unwrap_or(true) {
        return;
    }
    ab.ctl.set_schedule(vec![0]);
    let _ = guard(|| block_on(awalk(&ab.root, "")));
    let m = ab.ctl.points.load(Ordering::SeqCst) as u32;
    if m == 0 || m > max_points {
        acc.count("walk_sweep_skipped_too_many_points", 1);
        return;
    }
    acc.note("walk_sweep_points", format!("{} points on {} shape {}", m, cfg.shape(), shape));
    for mask in 0u32..(1 << m) {
        let sched: Vec<u8> = (0..m).map(|b| ((mask >> b) & 1) as u8).chain(std::iter::once(0)).collect();
        ab.ctl.set_schedule(sched.clone());
        let got = guard(|| block_on(awalk(&ab.root, "")));
        acc.count("walk_sweep_schedules", 1);
        acc.evaluations += 1;
        acc.fingerprints.insert(Rng::derive(mask as u64, &cfg.shape(), shape as u64).0);
        let got = match got {
            Err(p) => {
                acc.violate(Violation { property: "C15", signature: format!("walk-sweep-panic|{}", cfg.shape()), summary: format!("walk_dir stream panicked under pending pattern {:?}: {}", sched, p.message), detail: J::s(format!("{:?}", tree.keys())), order: idx * 10000 + mask as u64 });
                continue;
            }
            Ok(Err(e)) => Err(e.to_string()),
            Ok(Ok(items)) => walk_ok(&items, ""),
        };
        if got != want {
            acc.violate(Violation {
                property: "C15",
                signature: format!("walk-sweep|{}|shape{}", cfg.shape(), shape),
                summary: format!("walk_dir stream under pending pattern {:?} yields {:?}, sync iterator yields {:?}", sched, got, want),
                detail: J::obj().set("tag", J::s("c15-walk-sweep")).set("history", J::i(idx)).set("seed", J::i(a.seed)).set("tree", J::arr(tree.keys().map(J::s))).set("schedule", J::s(format!("{:?}", sched))),
                order: idx * 10000 + mask as u64,
            });
        }
    }
}

/// Write handles kept open while the path changes underneath them (C03b/C10b/C13 style rug-pulls, plus a second
/// writer on the same path): whatever the sync handle makes visible at flush and close — also with an empty
/// buffer — the async handle must make visible too.
pub fn held_handle_case(a: &Args, idx: u64, acc: &mut Acc) {
    use crate::ops::WStep;
    let mut rng = Rng::derive(a.seed, "c15-held", idx);
    let cfg = match rng.below(7) {
        0 | 1 | 2 => Cfg::Mem,
        3 => Cfg::Alt(Box::new(Cfg::Mem), "/__alt/p".into()),
        4 | 5 => Cfg::Ovl(vec![(Cfg::Mem, "".into()), (Cfg::Mem, "/__lay1".into())]),
        _ => Cfg::Alt(Box::new(Cfg::Ovl(vec![(Cfg::Mem, "".into()), (Cfg::Mem, "".into())])), "/__alt".into()),
    };
    let sched: Vec<u8> = match rng.below(3) {
        0 => vec![0],
        1 => vec![1],
        _ => (0..rng.range(3, 9)).map(|_| rng.below(3) as u8).collect(),
    };
    let sb = build(&cfg);
    let ab = match guard(|| block_on(abuild(&cfg, vec![0]))) {
        Ok(b) => b,
        Err(_) => return,
    };
    let mut tree: BTreeMap<String, Node> = BTreeMap::new();
    tree.insert("/d".into(), Node::Dir);
    if rng.chance(1, 2) {
        tree.insert("/d/f".into(), Node::File(b"old bytes".to_vec()));
    }
    tree.insert("/g".into(), Node::File(b"g".to_vec()));
    // on overlays the pre-state sits in the lowest layer half of the time
    let in_lower = rng.chance(1, 2);
    let placed = match (in_lower, outer_overlay(&sb)) {
        (true, Some((ovl, prefix))) if !ab.layer_views.is_empty() => {
            let views = sb.layer_views(ovl);
            crate::prepop::write_tree(&views[views.len() - 1].1, &prefix, &tree).is_ok() && guard(|| block_on(awrite_tree(&ab.layer_views[ab.layer_views.len() - 1], &prefix, &tree))).map(|r| r.is_ok()).unwrap_or(false)
        }
        _ => crate::prepop::write_tree(&sb.root, "", &tree).is_ok() && guard(|| block_on(awrite_tree(&ab.root, "", &tree))).map(|r| r.is_ok()).unwrap_or(false),
    };
    if !placed {
        acc.count("setup_failed", 1);
        return;
    }
    ab.ctl.set_schedule(sched.clone());
    let probe: Vec<String> = ["/d", "/d/f", "/d/f/x", "/g", "/d/moved"].iter().map(|s| s.to_string()).collect();
    let t = "/d/f".to_string();
    let exists = tree.contains_key(&t);
    let append = exists && rng.chance(1, 2);
    acc.evaluations += 1;
    let mut trace: Vec<String> = vec![];
    let mk = |trace: &Vec<String>| J::obj().set("tag", J::s("c15-held")).set("seed", J::i(a.seed)).set("history", J::i(idx)).set("config", J::s(cfg.desc())).set("pre_state_in_lower_layer", J::Bool(in_lower)).set("poll_schedule", J::s(format!("{:?}", sched))).set("trace", J::arr(trace.iter().map(J::s)));
    // ---- open the two handles
    let sp = crate::ops::at(&sb.root, &t);
    let ap = crate::asyncside::aat(&ab.root, &t);
    let hs = guard(|| if append { sp.append_file() } else { sp.create_file() });
    let ha = guard(|| block_on(async { if append { ap.append_file().await } else { ap.create_file().await } }));
    let (mut hs, mut ha) = match (hs, ha) {
        (Ok(Ok(x)), Ok(Ok(y))) => (Some(x), Some(y)),
        (Ok(Err(_)), Ok(Err(_))) => return,
        (x, y) => {
            acc.violate(Violation { property: "C15", signature: format!("held|open-outcome|{}|{}", if append { "append" } else { "create" }, cfg.family()), summary: format!("opening a write handle on {}: sync ok={} async ok={}", t, matches!(x, Ok(Ok(_))), matches!(y, Ok(Ok(_)))), detail: mk(&trace), order: idx * 100 });
            return;
        }
    };
    trace.push(format!("{}({}) -> handle kept open in both worlds", if append { "append_file" } else { "create_file" }, t));
    #[derive(Debug)]
    enum H {
        Write(Vec<u8>),
        Flush,
        Rug(Op),
        Close(bool),
    }
    let mut script: Vec<H> = vec![];
    let writes = |rng: &mut Rng, script: &mut Vec<H>| {
        for _ in 0..rng.below(3) {
            let len = *rng.pick(&[0usize, 0, 1, 5]);
            script.push(H::Write(rng.bytes(len, true)));
            if rng.chance(1, 3) {
                script.push(H::Flush);
            }
        }
    };
    writes(&mut rng, &mut script);
    for _ in 0..rng.range(0, 2) {
        let op = match rng.below(8) {
            0 | 1 => Op::RemoveFile(t.clone()),
            2 => Op::CreateFile(t.clone(), vec![WStep::Write(b"data".to_vec())]),
            3 => Op::AppendFile(t.clone(), vec![WStep::Write(b"zz".to_vec())]),
            4 => Op::RemoveDirAll("/d".into()),
            5 => Op::CreateDir(t.clone()),
            6 => Op::MoveFile(t.clone(), "/d/moved".into()),
            _ => Op::CreateFile(t.clone(), vec![]),
        };
        script.push(H::Rug(op));
    }
    writes(&mut rng, &mut script);
    script.push(H::Close(rng.chance(1, 2)));
    let mut prev: BTreeSet<(String, &'static str)> = BTreeSet::new();
    for (i, st) in script.iter().enumerate() {
        let order = idx * 100 + i as u64 + 1;
        // outcome classes of the step in both worlds
        let (rs, ra): (Result<(), String>, Result<(), String>) = match st {
            H::Write(b) => {
                let x = guard(|| std::io::Write::write_all(hs.as_mut().unwrap(), b)).map_err(|p| format!("PANIC {}", p.message)).and_then(|r| r.map_err(|e| e.kind().to_string()));
                let y = guard(|| block_on(async { async_std::io::WriteExt::write_all(ha.as_mut().unwrap(), b).await })).map_err(|p| format!("PANIC {}", p.message)).and_then(|r| r.map_err(|e| e.kind().to_string()));
                (x, y)
            }
            H::Flush => {
                let x = guard(|| std::io::Write::flush(hs.as_mut().unwrap())).map_err(|p| format!("PANIC {}", p.message)).and_then(|r| r.map_err(|e| e.kind().to_string()));
                let y = guard(|| block_on(async { async_std::io::WriteExt::flush(ha.as_mut().unwrap()).await })).map_err(|p| format!("PANIC {}", p.message)).and_then(|r| r.map_err(|e| e.kind().to_string()));
                (x, y)
            }
            H::Rug(op) => (exec(&sb.root, op).map(|_| ()).map_err(|e| e.kind.name().to_string()), aexec(&ab.root, op).map(|_| ()).map_err(|e| if e.panic.is_some() { format!("PANIC {}", e.display) } else { e.kind.name().to_string() })),
            H::Close(explicit) => {
                let x = guard(|| drop(hs.take())).map_err(|p| format!("PANIC {}", p.message));
                let mut h = ha.take();
                let y = guard(|| {
                    block_on(async {
                        if *explicit {
                            // an explicit close may fail where drop stays silent; only the resulting state is compared
                            let _ = futures::AsyncWriteExt::close(h.as_mut().unwrap()).await;
                        }
                        drop(h);
                    })
                })
                .map_err(|p| format!("PANIC {}", p.message));
                (x, y)
            }
        };
        trace.push(format!("{:?} => sync {:?} async {:?}", st, rs, ra));
        acc.steps += 1;
        for r in [&rs, &ra] {
            if let Err(m) = r {
                if m.starts_with("PANIC") {
                    acc.violate(Violation { property: "C13", signature: format!("panic|held-handle-step|{}|{}", cfg.family(), m.chars().filter(|c| !c.is_ascii_digit()).take(50).collect::<String>()), summary: m.clone(), detail: mk(&trace), order });
                    return;
                }
            }
        }
        let step_name = match st { H::Write(b) if b.is_empty() => "write-empty", H::Write(_) => "write", H::Flush => "flush", H::Rug(op) => op.name(), H::Close(true) => "close+drop", H::Close(false) => "drop" };
        // flush/write errors of a handle whose file is gone are compared as ok/err only; rug steps as ok/err
        if rs.is_ok() != ra.is_ok() && !matches!(st, H::Close(_)) {
            acc.violate(Violation { property: "C15", signature: format!("held|outcome|{}|sync:{}|async:{}|{}", step_name, if rs.is_ok() { "Ok" } else { "Err" }, if ra.is_ok() { "Ok" } else { "Err" }, cfg.family()), summary: format!("with a write handle on {} kept open, step {:?}: sync => {:?} but async => {:?}", t, st, rs, ra), detail: mk(&trace), order });
            return;
        }
        // observable state: never while unflushed bytes could legitimately differ? Both worlds buffer identically
        // (nothing is visible before flush/close), so the snapshots must agree after every step
        let ns = snapshot(&sb.root, &probe, 4096);
        let na = asnapshot(&ab.root, &probe);
        acc.fingerprints.insert(ns.fingerprint() ^ 0x15d);
        let d = diff_snaps(&ns, &na);
        let fresh: Vec<&crate::snapshot::Diff> = d.iter().filter(|x| !prev.contains(&(x.path.clone(), x.observer))).collect();
        if let Some(f) = fresh.first() {
            acc.violate(Violation { property: "C15", signature: format!("held|state|after:{}|{}@{}|{}", step_name, f.observer, if f.path == t { "handle-path" } else { "other" }, cfg.family()), summary: format!("with a write handle on {} kept open, after {:?} the sync and async worlds differ at {:?}: {} sync={} async={}", t, st, f.path, f.observer, f.expected, f.got), detail: mk(&trace), order });
            return;
        }
        prev = d.into_iter().map(|x| (x.path, x.observer)).collect();
        acc.cell(format!("held|{}|{}", step_name, cfg.family()));
    }
    acc.count("held_handle_cases", 1);
    if idx < 2 {
        acc.sample(2000 + idx, J::obj().set("held_handle_case", J::i(idx)).set("config", J::s(cfg.desc())).set("trace", J::arr(trace.iter().map(J::s))));
    }
}

/// Read handles of the async port against `std::io::Cursor` over the same bytes (what C14 does for the sync
/// handles): one file, many read/seek scripts, moderate offsets; async physical files included on purpose (their
/// handle is a third-party type).
pub fn async_handle_case(a: &Args, idx: u64, acc: &mut Acc) {
    async_handle_case_inner(a, idx, acc, false)
}

/// C13's variant: offsets i64::MIN .. i64::MAX; results are not compared (a File and a Cursor legitimately differ
/// out there), only panics count
pub fn async_handle_case_extreme(a: &Args, idx: u64, acc: &mut Acc) {
    async_handle_case_inner(a, idx, acc, true)
}

fn async_handle_case_inner(a: &Args, idx: u64, acc: &mut Acc, extreme: bool) {
    use crate::props::c14::{cmp_results, gen_bytes, gen_read_script, render_rs};
    let mut rng = Rng::derive(a.seed, if extreme { "c13-async-handles" } else { "c15-handles" }, idx);
    let cfg = match rng.below(8) {
        0 | 1 => Cfg::Mem,
        2 | 3 => Cfg::Phys,
        4 => Cfg::Alt(Box::new(Cfg::Mem), "/__alt/p".into()),
        5 => Cfg::Alt(Box::new(Cfg::Phys), "/__alt".into()),
        6 => Cfg::Ovl(vec![(Cfg::Mem, "".into()), (Cfg::Phys, "".into())]),
        _ => Cfg::Ovl(vec![(Cfg::Phys, "".into()), (Cfg::Mem, "/__lay1".into())]),
    };
    let ab = match guard(|| block_on(abuild(&cfg, vec![0]))) {
        Ok(b) => b,
        Err(_) => return,
    };
    let content = gen_bytes(&mut rng, true);
    let mut tree: BTreeMap<String, Node> = BTreeMap::new();
    tree.insert("/f".into(), Node::File(content.clone()));
    let in_lower = !ab.layer_views.is_empty() && rng.chance(1, 2);
    let view = if in_lower { ab.layer_views[ab.layer_views.len() - 1].clone() } else { ab.root.clone() };
    if guard(|| block_on(awrite_tree(&view, "", &tree))).map(|r| r.is_err()).unwrap_or(true) {
        acc.count("setup_failed", 1);
        return;
    }
    let sched: Vec<u8> = if rng.chance(1, 2) { vec![0] } else { (0..rng.range(3, 9)).map(|_| rng.below(3) as u8).collect() };
    ab.ctl.set_schedule(sched.clone());
    acc.evaluations += 1;
    for k in 0..4u64 {
        let script = gen_read_script(&mut rng, content.len(), extreme);
        let reference = crate::ops::run_rscript(&mut std::io::Cursor::new(content.clone()), &script);
        let root = ab.root.clone();
        let got = guard(|| {
            block_on(async {
                let mut h = crate::asyncside::aat(&root, "/f").open_file().await.map_err(|e| e.to_string())?;
                Ok::<_, String>(crate::asyncside::arun_rscript(&mut *h, &script).await)
            })
        });
        acc.steps += script.len() as u64;
        acc.fingerprints.insert(Rng::derive(content.len() as u64, &format!("{:?}", script), 15).0);
        let detail = || J::obj().set("tag", J::s("c15-handles")).set("seed", J::i(a.seed)).set("history", J::i(idx)).set("config", J::s(format!("async {}", cfg.desc()))).set("file_in_lower_layer", J::Bool(in_lower)).set("poll_schedule", J::s(format!("{:?}", sched))).set("content_len", J::i(content.len() as u64)).set("script", J::s(format!("{:?}", script)));
        match got {
            Err(p) => {
                acc.violate(Violation { property: "C13", signature: format!("panic|async-read-handle|{}|{}|{}", cfg.family(), p.head(), p.file()), summary: format!("async read handle panicked: {} at {}", p.message, p.location), detail: detail(), order: idx * 10 + k });
                return;
            }
            Ok(Err(e)) => {
                acc.violate(Violation { property: "C15", signature: format!("async-handle|open-failed|{}", cfg.family()), summary: format!("opening an existing file through the async port failed: {}", e), detail: detail(), order: idx * 10 + k });
                return;
            }
            Ok(Ok(_)) if extreme => {}
            Ok(Ok(res)) => {
                if let Some(i) = cmp_results(&res, &reference) {
                    let step = match &script[i] { crate::ops::RStep::Read(0) => "read0", crate::ops::RStep::Read(_) => "read", crate::ops::RStep::Seek(..) => "seek", crate::ops::RStep::ReadToEnd => "read_to_end" };
                    acc.violate(Violation { property: "C15", signature: format!("async-handle|{}|{}|{}", step, if in_lower { "lower-layer" } else { "direct" }, cfg.family()), summary: format!("async read handle differs from std::io::Cursor (and so from the sync handle, C14) at step {} of {:?} on a {}-byte file: handle [{}] cursor [{}]", i, script, content.len(), render_rs(&res), render_rs(&reference)), detail: detail(), order: idx * 10 + k });
                    return;
                }
            }
        }
    }
    acc.count("async_handle_cases", 1);
    acc.cell(format!("async-handle|{}", cfg.family()));
}

pub fn run(a: &Args) -> Acc {
    let k = if a.tier == "thorough" { 8 } else { 4 };
    let mut acc = par_run(a, "c15", a.n(1500, 30000), |a, idx, acc| run_case(a, "c15", idx, k, acc));
    let maxp = if a.tier == "thorough" { 14 } else { 11 };
    acc.merge(par_run(a, "c15-walk-sweep", a.n(24, 96), |a, idx, acc| walk_sweep(a, idx, maxp, acc)));
    acc.merge(par_run(a, "c15-walk-mutation", a.n(3000, 60000), walk_mutation_case));
    acc.merge(par_run(a, "c15-transfer", a.n(1200, 20000), transfer_case));
    acc.merge(par_run(a, "c15-held", a.n(4000, 60000), held_handle_case));
    acc.merge(par_run(a, "c15-handles", a.n(1500, 25000), async_handle_case));
    acc
}

/// C13 part 7: unrestricted histories through the async port only (no sync twin): only panics count.
pub fn hostile_async_case(a: &Args, idx: u64, acc: &mut Acc) {
    let mut rng = Rng::derive(a.seed, "c13-async", idx);
    let cfg = match rng.below(12) {
        0 | 1 | 2 | 3 => Cfg::Mem,
        4 | 5 => Cfg::Alt(Box::new(Cfg::Mem), "/__alt/p".into()),
        6 | 7 | 8 => Cfg::Ovl(vec![(Cfg::Mem, "".into()), (Cfg::Mem, "/__lay1".into())]),
        9 => Cfg::Phys,
        _ => gen_cfg(&mut rng, 2, false, 3),
    };
    let slow = cfg.has_phys();
    let universe = if slow { Universe::new(vec!["a", "ab"], 2) } else { Universe::generate(&mut rng) };
    let sched: Vec<u8> = (0..rng.range(3, 11)).map(|_| rng.below(3) as u8).collect();
    let ab = match guard(|| block_on(abuild(&cfg, sched.clone()))) {
        Ok(b) => b,
        Err(p) => {
            acc.violate(Violation { property: "C13", signature: format!("panic|async-setup|{}|{}", p.head(), p.file()), summary: format!("building the async configuration panicked: {}", p.message), detail: J::s(cfg.desc()), order: idx });
            return;
        }
    };
    let mut d = Domain::untyped();
    d.keep_root = false;
    d.root_targets = true;
    d.extreme_scripts = true;
    d.weights.retain(|w| w.0 != "set_time" || !slow);
    let probe = universe.paths.clone();
    let mut trace = vec![];
    acc.evaluations += 1;
    let nsteps = if slow { rng.range(3, 6) } else { rng.range(8, 24) };
    let mut snap = asnapshot(&ab.root, &probe);
    for step in 0..nsteps {
        let tree = snap.tree();
        let op = gen_op(&mut rng, &d, &universe, &tree);
        let class = tree.class(op.path());
        let r = aexec(&ab.root, &op);
        trace.push(format!("{} [{}] => {}", op.render(), class.name(), crate::ops::res_class(&r)));
        acc.steps += 1;
        let order = idx * 1000 + step as u64;
        let detail = |trace: &Vec<String>| J::obj().set("tag", J::s("c13-async")).set("seed", J::i(a.seed)).set("history", J::i(idx)).set("config", J::s(cfg.desc())).set("poll_schedule", J::s(format!("{:?}", sched))).set("trace", J::arr(trace.iter().map(J::s)));
        if let Err(e) = &r {
            if let Some(p) = &e.panic {
                acc.violate(Violation { property: "C13", signature: format!("panic|async:{}|{}|{}|{}", op.name(), class.name(), p.head(), p.file()), summary: format!("async {} panicked: {} at {}", op.render(), p.message, p.location), detail: detail(&trace), order });
                return;
            }
        }
        snap = asnapshot(&ab.root, &probe);
        acc.fingerprints.insert(snap.fingerprint() ^ 0xA5);
        if let Some((m, p, e)) = snap.panics().first() {
            let pi = e.panic.clone().unwrap();
            acc.violate(Violation { property: "C13", signature: format!("panic|async-observer:{}|{}|{}", m, pi.head(), pi.file()), summary: format!("async observer {}({:?}) panicked: {} at {}", m, p, pi.message, pi.location), detail: detail(&trace), order });
            return;
        }
    }
    if idx < 2 {
        acc.sample(idx, J::obj().set("async_hostile_case", J::i(idx)).set("config", J::s(cfg.desc())).set("ops", J::arr(trace.iter().map(J::s))));
    }
}

/// Walk under mutation: entries already listed by the walker are removed before the walker examines them.
/// The sync iterator yields exactly one error per vanished entry and goes on; the async stream must deliver
/// the same items under every pending schedule.
pub fn walk_mutation_case(a: &Args, idx: u64, acc: &mut Acc) {
    let mut rng = Rng::derive(a.seed, "c15-walk-mutation", idx);
    let cfg = match rng.below(4) {
        0 | 1 => Cfg::Mem,
        2 => Cfg::Alt(Box::new(Cfg::Mem), "/__alt/p".into()),
        _ => Cfg::Ovl(vec![(Cfg::Mem, "".into()), (Cfg::Mem, "/__lay1".into())]),
    };
    // one directory /d with n children (files and empty directories): the walker lists them in one read_dir call
    let n = rng.range(2, 6);
    let mut tree: BTreeMap<String, Node> = BTreeMap::new();
    tree.insert("/d".into(), Node::Dir);
    for i in 0..n {
        tree.insert(format!("/d/c{}", i), if rng.chance(1, 3) { Node::Dir } else { Node::File(vec![b'x'; i]) });
    }
    let pulls_before = rng.range(1, 2); // items pulled before the removal: "/d" (and one child)
    let sched: Vec<u8> = match rng.below(4) {
        0 => vec![0],
        1 => vec![1],
        2 => (0..rng.range(3, 9)).map(|_| rng.below(3) as u8).collect(),
        _ => vec![0, 0, 3],
    };
    acc.evaluations += 1;
    acc.fingerprints.insert(Rng::derive(idx % 5003, &format!("{:?}{}{}", sched, n, pulls_before), cfg.shape().len() as u64).0);
    // ---- sync
    let sb = build(&cfg);
    if crate::prepop::write_tree(&sb.root, "", &tree).is_err() {
        return;
    }
    let sync_guarded = guard(|| (|| -> Result<(Vec<String>, usize), String> {
        let mut it = sb.root.walk_dir().map_err(|e| e.to_string())?;
        let mut oks = vec![];
        let mut errs = 0usize;
        let mut pulled = vec![];
        for _ in 0..pulls_before {
            match it.next() {
                Some(Ok(p)) => {
                    pulled.push(p.as_str().to_string());
                    oks.push(p.as_str().to_string());
                }
                Some(Err(_)) => errs += 1,
                None => break,
            }
        }
        for k in tree.keys().filter(|k| k.starts_with("/d/") && !pulled.contains(k)) {
            let p = crate::ops::at(&sb.root, k);
            let _ = if matches!(tree[k], Node::Dir) { p.remove_dir() } else { p.remove_file() };
        }
        for (i, item) in it.enumerate() {
            match item {
                Ok(p) => oks.push(p.as_str().to_string()),
                Err(_) => errs += 1,
            }
            if i > 200 {
                return Err("sync walk does not terminate".into());
            }
        }
        oks.sort();
        Ok((oks, errs))
    })());
    let sync_items = match sync_guarded {
        Ok(x) => x,
        Err(p) => {
            acc.violate(Violation { property: "C13", signature: format!("panic|walk-under-removal|{}|{}|{}", cfg.family(), p.head(), p.file()), summary: format!("walk_dir with listed entries removed mid-walk panicked: {} at {}", p.message, p.location), detail: J::obj().set("tag", J::s("c15-walk-mutation")).set("seed", J::i(a.seed)).set("history", J::i(idx)).set("config", J::s(cfg.desc())), order: idx });
            return;
        }
    };
    // ---- async
    let ab = match guard(|| block_on(abuild(&cfg, vec![0]))) {
        Ok(b) => b,
        Err(_) => return,
    };
    if guard(|| block_on(awrite_tree(&ab.root, "", &tree))).map(|r| r.is_err()).unwrap_or(true) {
        return;
    }
    ab.ctl.set_schedule(sched.clone());
    let root = ab.root.clone();
    let tree2 = tree.clone();
    let async_items: Result<Result<(Vec<String>, usize), String>, _> = guard(|| {
        block_on(async {
            use futures::stream::StreamExt;
            let mut it = root.walk_dir().await.map_err(|e| e.to_string())?;
            let mut oks = vec![];
            let mut errs = 0usize;
            let mut pulled = vec![];
            for _ in 0..pulls_before {
                match it.next().await {
                    Some(Ok(p)) => {
                        pulled.push(p.as_str().to_string());
                        oks.push(p.as_str().to_string());
                    }
                    Some(Err(_)) => errs += 1,
                    None => break,
                }
            }
            for k in tree2.keys().filter(|k| k.starts_with("/d/") && !pulled.contains(k)) {
                let p = crate::asyncside::aat(&root, k);
                let _ = if matches!(tree2[k], Node::Dir) { p.remove_dir().await } else { p.remove_file().await };
            }
            let mut i = 0;
            while let Some(item) = it.next().await {
                match item {
                    Ok(p) => oks.push(p.as_str().to_string()),
                    Err(_) => errs += 1,
                }
                i += 1;
                if i > 200 {
                    return Err(format!("async walk does not terminate ({} ok, {} errors so far)", oks.len(), errs));
                }
            }
            oks.sort();
            Ok((oks, errs))
        })
    });
    acc.steps += 1;
    let detail = J::obj().set("tag", J::s("c15-walk-mutation")).set("seed", J::i(a.seed)).set("history", J::i(idx)).set("config", J::s(cfg.desc())).set("children", J::i(n as u64)).set("pulled_before_removal", J::i(pulls_before as u64)).set("poll_schedule", J::s(format!("{:?}", sched)));
    match async_items {
        Err(p) => {
            acc.violate(Violation { property: "C13", signature: format!("panic|async-walk-under-removal|{}|{}|{}", cfg.family(), p.head(), p.file()), summary: format!("async walk_dir with listed entries removed mid-walk panicked: {} at {}", p.message, p.location), detail: detail.clone(), order: idx });
            acc.violate(Violation { property: "C15", signature: format!("walk-mutation-panic|{}", cfg.shape()), summary: format!("async walk under removal panicked: {}", p.message), detail, order: idx })
        }
        Ok(ai) => {
            // with one item pulled nothing inside /d has been listed yet: both worlds see an empty /d afterwards;
            // with two pulled, the remaining n-1 listed children vanish: one error each, in both worlds
            // which child is examined first depends on each world's HashMap order: compare counts, not names
            let shape = |r: &Result<(Vec<String>, usize), String>| r.as_ref().map(|(o, e)| (o.len(), o.contains(&"/d".to_string()), *e)).map_err(|e| e.clone());
            if shape(&ai) != shape(&sync_items) {
                acc.violate(Violation {
                    property: "C15",
                    signature: format!("walk-under-removal|pulled{}|{}|{}", pulls_before, if sched == vec![0] { "no-pending" } else { "with-pending" }, cfg.shape()),
                    summary: format!("walk_dir with listed entries removed mid-walk: sync yields {:?}, async (poll schedule {:?}) yields {:?}", sync_items, sched, ai),
                    detail,
                    order: idx,
                });
            }
        }
    }
    acc.count("walks_under_removal", 1);
}

/// Transfer operations (incl. the wrong-typed sources C01 leaves unspecified) on physical-backed stackings:
/// the async port must take the same routes as the sync API (fast path vs stream fallback), which only shows
/// on backends that have native rename/copy. Tiny universe because async file I/O is slow.
pub fn transfer_case(a: &Args, idx: u64, acc: &mut Acc) {
    let mut rng = Rng::derive(a.seed, "c15-transfer", idx);
    let cfg = match rng.below(6) {
        0 | 1 => Cfg::Alt(Box::new(Cfg::Phys), "/__alt".into()),
        2 => Cfg::Phys,
        3 => Cfg::Alt(Box::new(Cfg::Mem), "/__alt/p".into()),
        4 => Cfg::Ovl(vec![(Cfg::Phys, "".into()), (Cfg::Mem, "".into())]),
        _ => Cfg::Alt(Box::new(Cfg::Alt(Box::new(Cfg::Phys), "/in".into())), "/__alt".into()),
    };
    let sb = build(&cfg);
    let ab = match guard(|| block_on(abuild(&cfg, vec![0, 1]))) {
        Ok(b) => b,
        Err(_) => return,
    };
    let mut pre: BTreeMap<String, Node> = BTreeMap::new();
    pre.insert("/a".into(), Node::Dir);
    pre.insert("/a/f".into(), Node::File(b"file-in-a".to_vec()));
    if rng.chance(1, 2) {
        pre.insert("/b".into(), Node::File(b"b".to_vec()));
    }
    if rng.chance(1, 2) {
        pre.insert("/e".into(), Node::Dir);
    }
    if crate::prepop::write_tree(&sb.root, "", &pre).is_err() {
        return;
    }
    ab.ctl.set_schedule(vec![0]);
    if guard(|| block_on(awrite_tree(&ab.root, "", &pre))).map(|r| r.is_err()).unwrap_or(true) {
        return;
    }
    ab.ctl.set_schedule(vec![0, 1]);
    let paths = ["/a", "/a/f", "/b", "/c", "/a/c", "/e", "/e/g", "/c/d"];
    let probe: Vec<String> = paths.iter().map(|s| s.to_string()).collect();
    let mut trace = vec![];
    acc.evaluations += 1;
    for step in 0..rng.range(1, 3) {
        let s = rng.pick(&paths).to_string();
        let d = rng.pick(&paths).to_string();
        if crate::model::is_under(&d, &s) || s == d {
            continue;
        }
        let op = match rng.below(4) {
            0 => Op::CopyFile(s, d),
            1 => Op::MoveFile(s, d),
            2 => Op::CopyDir(s, d),
            _ => Op::MoveDir(s, d),
        };
        let rs = exec(&sb.root, &op);
        let ra = aexec(&ab.root, &op);
        let (ns, na) = (snapshot(&sb.root, &probe, 4096), asnapshot(&ab.root, &probe));
        trace.push(format!("{} sync => {}  async => {}", op.render(), render_res(&rs), render_res(&ra)));
        acc.steps += 1;
        acc.fingerprints.insert(ns.fingerprint() ^ 0x7711);
        let detail = J::obj().set("tag", J::s("c15-transfer")).set("seed", J::i(a.seed)).set("history", J::i(idx)).set("config", J::s(cfg.desc())).set("pre_state", J::arr(pre.keys().map(J::s))).set("trace", J::arr(trace.iter().map(J::s)));
        let order = idx * 10 + step as u64;
        if let Err(e) = &ra {
            if let Some(p) = &e.panic {
                acc.violate(Violation { property: "C13", signature: format!("panic|async:{}|{}|{}", op.name(), p.head(), p.file()), summary: format!("async {} panicked: {}", op.render(), p.message), detail, order });
                return;
            }
        }
        if rs.is_ok() != ra.is_ok() {
            acc.violate(Violation { property: "C15", signature: format!("transfer-outcome|{}|sync:{}|async:{}|{}", op.name(), crate::ops::res_class(&rs), crate::ops::res_class(&ra), cfg.shape()), summary: format!("{}: sync => {} but async => {}", op.render(), render_res(&rs), render_res(&ra)), detail, order });
            return;
        }
        let dd = diff_snaps(&ns, &na);
        if let Some(f) = dd.first() {
            acc.violate(Violation { property: "C15", signature: format!("transfer-state|{}|{}|{}", op.name(), f.observer, cfg.shape()), summary: format!("after {} the sync and async worlds differ at {:?}: {} sync={} async={}", op.render(), f.path, f.observer, f.expected, f.got), detail, order });
            return;
        }
    }
    acc.note("config_shapes", cfg.shape());
}

/// Deep state of one layer seen through its own async view: path -> (is_dir, bytes, created, modified).
/// `accessed` is left out: reading a physical file to take this very snapshot may legitimately advance it.
async fn adeep(view: &AsyncVfsPath) -> BTreeMap<String, String> {
    use async_std::io::ReadExt;
    use futures::stream::StreamExt;
    let mut out = BTreeMap::new();
    let mut todo = vec![view.clone()];
    while let Some(d) = todo.pop() {
        let mut kids = vec![];
        if let Ok(mut s) = d.read_dir().await {
            while let Some(c) = s.next().await {
                kids.push(c);
            }
        }
        for c in kids {
            let m = c.metadata().await;
            let txt = match &m {
                Ok(m) if m.file_type == vfs::VfsFileType::Directory => format!("dir created={:?} modified={:?}", m.created, m.modified),
                Ok(m) => {
                    let mut b = vec![];
                    if let Ok(mut r) = c.open_file().await {
                        let _ = r.read_to_end(&mut b).await;
                    }
                    format!("file len={} bytes={} created={:?} modified={:?}", m.len, String::from_utf8_lossy(&b), m.created, m.modified)
                }
                Err(e) => format!("metadata error {:?}", crate::ops::ErrInfo::from_vfs(e).kind),
            };
            if matches!(&m, Ok(m) if m.file_type == vfs::VfsFileType::Directory) {
                todo.push(c.clone());
            }
            out.insert(c.as_str().to_string(), txt);
        }
    }
    out
}

/// C08 through the async port: an AsyncOverlayFS with 2-3 pre-populated layers (memory / physical) runs an untyped
/// history including timestamp setters; after every step the deep state of every lower layer, read through the
/// layer's own view, must equal what it was before the history started.
pub fn async_lower_untouched_case(a: &Args, idx: u64, acc: &mut Acc) {
    let mut rng = Rng::derive(a.seed, "c08-async", idx);
    let n = rng.range(2, 4);
    let mut layers = vec![];
    for i in 0..n {
        // physical lower layers are the ones that can be re-timed at all (AsyncMemoryFS has no setters)
        let phys = if i == 0 { rng.chance(1, 4) } else { rng.chance(1, 2) };
        layers.push((if phys { Cfg::Phys } else { Cfg::Mem }, String::new()));
    }
    let cfg = Cfg::Ovl(layers);
    let universe = Universe::new(vec![*rng.pick(&["a", "é", "a.b"]), *rng.pick(&["ab", "b", ".h"])], 2);
    let ab = match guard(|| block_on(abuild(&cfg, vec![0]))) {
        Ok(b) => b,
        Err(_) => {
            acc.count("setup_failed", 1);
            return;
        }
    };
    // every layer gets its own random well-formed tree over the universe (parents sort before children)
    let mut layers_txt = vec![];
    for (i, view) in ab.layer_views.iter().enumerate() {
        let mut tree: BTreeMap<String, Node> = BTreeMap::new();
        let mut sorted = universe.paths.clone();
        sorted.sort();
        for p in &sorted {
            let par = parent_of(p);
            let par_ok = par.is_empty() || matches!(tree.get(&par), Some(Node::Dir));
            if par_ok && rng.chance(if i == 0 { 1 } else { 2 }, 3) {
                tree.insert(p.clone(), if rng.chance(1, 2) { Node::Dir } else { Node::File(format!("L{}:{}", i, p).into_bytes()) });
            }
        }
        layers_txt.push(format!("layer {}: {:?}", i, tree.iter().map(|(p, n)| format!("{}{}", p, if matches!(n, Node::Dir) { "/" } else { "" })).collect::<Vec<_>>()));
        if guard(|| block_on(awrite_tree(view, "", &tree))).map(|r| r.is_err()).unwrap_or(true) {
            acc.count("setup_failed", 1);
            return;
        }
    }
    let lower: Vec<AsyncVfsPath> = ab.layer_views.iter().skip(1).cloned().collect();
    let before: Vec<BTreeMap<String, String>> = lower.iter().map(|v| block_on(adeep(v))).collect();
    let mut d = Domain::untyped();
    for w in d.weights.iter_mut() {
        if w.0 == "set_time" {
            w.1 = 10;
        }
    }
    d.hold_handles = false;
    let probe = universe.paths.clone();
    let mut trace = vec![];
    acc.evaluations += 1;
    let nsteps = rng.range(4, 10);
    for step in 0..nsteps {
        let snap = asnapshot(&ab.root, &probe);
        let tree = snap.tree();
        let op = gen_op(&mut rng, &d, &universe, &tree);
        let class = tree.class(op.path());
        let r = aexec(&ab.root, &op);
        trace.push(format!("{} [{}] => {}", op.render(), class.name(), crate::ops::res_class(&r)));
        acc.steps += 1;
        acc.count("async_lower_layer_comparisons", lower.len() as u64);
        for (li, v) in lower.iter().enumerate() {
            let now = block_on(adeep(v));
            if now != before[li] {
                let mut what = String::new();
                for (p, t) in &before[li] {
                    match now.get(p) {
                        None => { what = format!("{} removed (was {})", p, t); break; }
                        Some(t2) if t2 != t => { what = format!("{}: {} -> {}", p, t, t2); break; }
                        _ => {}
                    }
                }
                if what.is_empty() {
                    if let Some((p, t)) = now.iter().find(|(p, _)| !before[li].contains_key(*p)) {
                        what = format!("{} appeared ({})", p, t);
                    }
                }
                let field = if what.contains(" removed") { "removed" } else if what.contains(" appeared") { "appeared" } else if what.contains("bytes=") && what.split(" -> ").map(|s| s.split(" created=").next().unwrap_or("").to_string()).collect::<BTreeSet<_>>().len() > 1 { "content" } else { "times" };
                acc.violate(Violation {
                    property: "C08",
                    signature: format!("async-lower-layer-modified|{}|{}|{}|{}", op.name(), class.name(), field, cfg.shape()),
                    summary: format!("async overlay: {} changed lower layer {}: {}", op.render(), li + 1, what),
                    detail: J::obj().set("tag", J::s("c08-async")).set("seed", J::i(a.seed)).set("history", J::i(idx)).set("config", J::s(cfg.desc())).set("layers", J::arr(layers_txt.iter().map(J::s))).set("trace", J::arr(trace.iter().map(J::s))),
                    order: idx * 1000 + step as u64,
                });
                return;
            }
        }
        acc.fingerprints.insert(asnapshot(&ab.root, &probe).fingerprint() ^ 0xC8);
    }
    if idx < 2 {
        acc.sample(idx, J::obj().set("async_lower_untouched_case", J::i(idx)).set("config", J::s(cfg.desc())).set("layers", J::arr(layers_txt.iter().map(J::s))).set("ops", J::arr(trace.iter().map(J::s))));
    }
}
