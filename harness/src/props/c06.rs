//! C06 — path joining is total, canonical and cannot climb above the root.
//! Independent reference resolver + canonical-form predicate + algebraic laws; bounded complete sweep + random.

use crate::json::J;
use crate::panicmon::guard;
use crate::props::par_run;
use crate::report::{Acc, Violation};
use crate::rng::Rng;
use crate::Args;
use vfs::async_vfs::{AsyncMemoryFS, AsyncVfsPath};
use vfs::{MemoryFS, VfsPath};

pub const TOKENS: &[&str] = &["/", ".", "..", "a", "b.c", "é", ".h", "a."];

/// Reference lexical resolution: component stack, '..' clamps at the root, a leading '/' restarts at the root.
pub fn ref_join(base: &str, arg: &str) -> Result<String, ()> {
    if arg.is_empty() {
        return Ok(base.to_string());
    }
    if arg.len() > 1 && arg.ends_with('/') {
        return Err(());
    }
    let mut stack: Vec<&str> = if arg.starts_with('/') { vec![] } else { base.split('/').filter(|c| !c.is_empty()).collect() };
    for comp in arg.split('/') {
        match comp {
            "" | "." => {}
            ".." => {
                stack.pop();
            }
            c => stack.push(c),
        }
    }
    Ok(stack.iter().map(|c| format!("/{}", c)).collect())
}

pub fn canonical(p: &str) -> bool {
    p.is_empty() || (p.starts_with('/') && p[1..].split('/').all(|c| !c.is_empty() && c != "." && c != ".."))
}

struct Ctx<'a> {
    root: &'a VfsPath,
    other: &'a VfsPath,
    aroot: &'a AsyncVfsPath,
    bases: Vec<VfsPath>,
    abases: Vec<AsyncVfsPath>,
}

fn viol(acc: &mut Acc, rule: &str, summary: String, base: &str, arg: &str, order: u64) {
    acc.violate(Violation {
        property: "C06",
        signature: format!("{}|{}", rule, arg_class(arg)),
        summary,
        detail: J::obj().set("base", J::s(base)).set("arg", J::s(arg)),
        order,
    });
}

fn arg_class(arg: &str) -> String {
    let mut c = vec![];
    if arg.starts_with('/') {
        c.push("abs");
    }
    if arg.contains("..") {
        c.push("dotdot");
    }
    if arg.ends_with('/') {
        c.push("trailing");
    }
    if arg.contains("//") {
        c.push("dblslash");
    }
    if !arg.is_ascii() {
        c.push("multibyte");
    }
    if c.is_empty() {
        c.push("plain");
    }
    c.join("+")
}

fn check_one(cx: &Ctx, bi: usize, arg: &str, acc: &mut Acc, order: u64, with_async: bool) {
    // the accessors (parent, filename, extension, root, ==) are library code too: a panic in them is a violation
    let mut local = Acc::new();
    if let Err(p) = guard(|| check_one_inner(cx, bi, arg, &mut local, order, with_async)) {
        let bstr = cx.bases[bi].as_str().to_string();
        viol(acc, "panic-in-accessor", format!("join({:?}, {:?}) or an accessor on its result panicked: {} at {}", bstr, arg, p.message, p.location), &bstr, arg, order);
        acc.violate(Violation { property: "C13", signature: format!("panic|path-accessor|{}|{}|{}", arg_class(arg), p.head(), p.file()), summary: format!("path accessor panicked for join({:?}, {:?}): {}", bstr, arg, p.message), detail: J::obj().set("base", J::s(&bstr)).set("arg", J::s(arg)), order });
    }
    acc.merge(local);
}

fn check_one_inner(cx: &Ctx, bi: usize, arg: &str, acc: &mut Acc, order: u64, with_async: bool) {
    let base = &cx.bases[bi];
    let bstr = base.as_str().to_string();
    acc.steps += 1;
    let want = ref_join(&bstr, arg);
    let got = guard(|| base.join(arg));
    let got = match got {
        Err(p) => {
            viol(acc, "panic", format!("join({:?}, {:?}) panicked: {} at {}", bstr, arg, p.message, p.location), &bstr, arg, order);
            acc.violate(Violation { property: "C13", signature: format!("panic|join|{}|{}|{}", arg_class(arg), p.head(), p.file()), summary: format!("join({:?}, {:?}) panicked: {}", bstr, arg, p.message), detail: J::obj().set("base", J::s(&bstr)).set("arg", J::s(arg)), order });
            return;
        }
        Ok(r) => r,
    };
    match (&got, &want) {
        (Err(e), Ok(w)) => {
            viol(acc, "rejects-valid", format!("join({:?}, {:?}) = Err({}) but the argument has no trailing slash (expected {:?})", bstr, arg, e, w), &bstr, arg, order);
            return;
        }
        (Ok(p), Err(())) => {
            viol(acc, "accepts-trailing-slash", format!("join({:?}, {:?}) = Ok({:?}) although the argument ends with '/'", bstr, arg, p.as_str()), &bstr, arg, order);
            // C12: trailing-slash joins are classified as invalid-path
            acc.violate(Violation { property: "C12", signature: format!("kind|join|trailing-slash|accepted|{}", arg_class(arg)), summary: format!("join({:?}, {:?}) = Ok({:?}): a trailing-slash join is not classified as invalid-path", bstr, arg, p.as_str()), detail: J::obj().set("base", J::s(&bstr)).set("arg", J::s(arg)), order });
            return;
        }
        (Err(e), Err(())) => {
            let ei = crate::ops::ErrInfo::from_vfs(e);
            if ei.kind != crate::ops::Kind::InvalidPath {
                viol(acc, "trailing-slash-kind", format!("join({:?}, {:?}) fails with {} instead of InvalidPath", bstr, arg, ei.kind.name()), &bstr, arg, order);
                acc.violate(Violation { property: "C12", signature: format!("kind|join|trailing-slash|{}", ei.kind.name()), summary: format!("join({:?}, {:?}) fails with {} instead of InvalidPath", bstr, arg, ei.kind.name()), detail: J::obj().set("base", J::s(&bstr)).set("arg", J::s(arg)), order });
            }
            if ei.path == crate::errmon::PLACEHOLDER || ei.display.contains(crate::errmon::PLACEHOLDER) {
                acc.violate(Violation { property: "C12", signature: "placeholder|join|InvalidPath".into(), summary: format!("join error carries the placeholder path: {}", ei.display), detail: J::obj().set("base", J::s(&bstr)).set("arg", J::s(arg)), order });
            }
            acc.count("join_errors_checked", 1);
            return;
        }
        (Ok(p), Ok(w)) => {
            let s = p.as_str();
            if !canonical(s) {
                viol(acc, "not-canonical", format!("join({:?}, {:?}) = {:?} is not canonical", bstr, arg, s), &bstr, arg, order);
                return;
            }
            if s != w {
                viol(acc, "wrong-resolution", format!("join({:?}, {:?}) = {:?}, lexical resolution is {:?}", bstr, arg, s, w), &bstr, arg, order);
                return;
            }
            // consistency of the derived accessors with the canonical form
            let last = s.rsplit('/').next().unwrap_or("");
            if p.filename() != last {
                viol(acc, "filename", format!("filename of {:?} is {:?}, last component is {:?}", s, p.filename(), last), &bstr, arg, order);
            }
            let want_parent = match s.rfind('/') {
                Some(i) => &s[..i],
                None => "",
            };
            let par = p.parent();
            if par.as_str() != want_parent {
                viol(acc, "parent", format!("parent of {:?} is {:?}, expected {:?}", s, par.as_str(), want_parent), &bstr, arg, order);
            }
            if p.is_root() != s.is_empty() {
                viol(acc, "is_root", format!("is_root({:?}) = {}", s, p.is_root()), &bstr, arg, order);
            }
            if !p.root().as_str().is_empty() || p.root() != *cx.root {
                viol(acc, "root", format!("root() of {:?} is {:?} / not equal to the filesystem root", s, p.root().as_str()), &bstr, arg, order);
            }
            match p.extension() {
                Some(e) => {
                    if !last.ends_with(&format!(".{}", e)) || e.contains('.') || last.len() == e.len() + 1 {
                        viol(acc, "extension", format!("extension of {:?} is Some({:?})", last, e), &bstr, arg, order);
                    }
                }
                None => {
                    if let Some(i) = last.rfind('.') {
                        if i > 0 {
                            viol(acc, "extension", format!("extension of {:?} is None although it has a dot after a non-empty stem", last), &bstr, arg, order);
                        }
                    }
                }
            }
            // equality: same instance + same string <=> equal
            let again = cx.root.join(if s.is_empty() { "" } else { &s[1..] });
            match again {
                Ok(q) => {
                    if q != *p {
                        viol(acc, "equality", format!("two paths of one filesystem with string {:?} compare unequal", s), &bstr, arg, order);
                    }
                }
                Err(_) => viol(acc, "rejoin", format!("canonical result {:?} cannot be re-joined from the root", s), &bstr, arg, order),
            }
            if let Ok(o) = cx.other.join(if s.is_empty() { "" } else { &s[1..] }) {
                if o == *p {
                    viol(acc, "equality-across-instances", format!("paths {:?} of two different filesystem instances compare equal", s), &bstr, arg, order);
                }
                // the same for paths DERIVED from them (root(), parent()): still two different filesystem instances
                if o.root() == p.root() {
                    viol(acc, "equality-across-instances", format!("root() of {:?} on two different filesystem instances compare equal", s), &bstr, arg, order);
                }
                if o.parent() == p.parent() {
                    viol(acc, "equality-across-instances", format!("parent() of {:?} on two different filesystem instances compare equal", s), &bstr, arg, order);
                }
            }
            // ... and equal on one instance, however the path was obtained
            if p.root() != *cx.root || !p.root().is_root() || p.root().as_str() != "" {
                viol(acc, "equality", format!("root() of {:?} is {:?}, is_root()={}, equal to the filesystem's root: {}", s, p.root().as_str(), p.root().is_root(), p.root() == *cx.root), &bstr, arg, order);
            }
            // the parent of join(p, name) is p, for a single ordinary name
            if !arg.contains('/') && arg != "." && arg != ".." && !arg.is_empty() && par.as_str() != bstr {
                viol(acc, "parent-of-join", format!("parent(join({:?}, {:?})) = {:?}", bstr, arg, par.as_str()), &bstr, arg, order);
            }
            acc.cell(format!("ok|{}|depth{}", arg_class(arg), s.matches('/').count().min(5)));
        }
    }
    if with_async {
        let ab = &cx.abases[bi];
        match guard(|| ab.join(arg)) {
            Err(p) => viol(acc, "panic-async", format!("AsyncVfsPath::join({:?}, {:?}) panicked: {}", bstr, arg, p.message), &bstr, arg, order),
            Ok(r) => {
                let a = r.as_ref().map(|p| p.as_str().to_string()).map_err(|_| ());
                if a != want {
                    viol(acc, "async-differs", format!("AsyncVfsPath::join({:?}, {:?}) = {:?}, reference {:?}", bstr, arg, a, want), &bstr, arg, order);
                }
                if let Ok(p) = &r {
                    if p.root() != *cx.aroot {
                        viol(acc, "async-root", "AsyncVfsPath::root() differs from the filesystem root".into(), &bstr, arg, order);
                    }
                }
            }
        }
    }
}

fn compose_law(cx: &Ctx, bi: usize, a: &str, b: &str, acc: &mut Acc, order: u64) {
    if a.is_empty() || b.is_empty() || b.starts_with('/') {
        return;
    }
    let base = &cx.bases[bi];
    let left = guard(|| base.join(a).and_then(|x| x.join(b)));
    let right = guard(|| base.join(format!("{}/{}", a, b)));
    if let (Ok(Ok(l)), Ok(Ok(r))) = (&left, &right) {
        acc.count("composition_laws_checked", 1);
        if l != r {
            viol(acc, "composition", format!("join(join({:?},{:?}),{:?}) = {:?} but join(p,{:?}) = {:?}", base.as_str(), a, b, l.as_str(), format!("{}/{}", a, b), r.as_str()), base.as_str(), &format!("{}|{}", a, b), order);
        }
    }
}

fn with_ctx<R>(f: impl FnOnce(&Ctx) -> R) -> R {
    let root = VfsPath::new(MemoryFS::new());
    let other = VfsPath::new(MemoryFS::new());
    let aroot = AsyncVfsPath::new(AsyncMemoryFS::new());
    let base_strs = ["", "x", "x/é", "x/y.z/w"];
    let bases = base_strs.iter().map(|b| root.join(b).unwrap()).collect();
    let abases = base_strs.iter().map(|b| aroot.join(b).unwrap()).collect();
    f(&Ctx { root: &root, other: &other, aroot: &aroot, bases, abases })
}

fn nth_string(mut i: u64, len: usize) -> String {
    let mut s = String::new();
    for _ in 0..len {
        s.push_str(TOKENS[(i % TOKENS.len() as u64) as usize]);
        i /= TOKENS.len() as u64;
    }
    s
}

pub fn run(a: &Args) -> (Acc, bool) {
    let max_tokens = if a.tier == "thorough" { 9 } else { 7 };
    let max_tokens = if a.scale < 1.0 { 4 } else { max_tokens };
    // sweep: shard the index space of every length over the workers
    let mut total = Acc::new();
    for len in 0..=max_tokens {
        let count = (TOKENS.len() as u64).pow(len as u32);
        let shards = 64u64.min(count);
        let acc = par_run(a, "c06-sweep", shards, |_a, shard, acc| {
            with_ctx(|cx| {
                let mut i = shard;
                while i < count {
                    let arg = nth_string(i, len);
                    for bi in 0..cx.bases.len() {
                        check_one(cx, bi, &arg, acc, len as u64 * 1_000_000_000 + i, i % 7 == 0);
                    }
                    if i % 5 == 0 && len >= 2 {
                        // composition law on a split of the same token string
                        let k = 1 + (i as usize % (len - 1).max(1));
                        let (x, y) = (nth_string(i, k), nth_string(i / (TOKENS.len() as u64).pow(k as u32), len - k));
                        compose_law(cx, (i % 4) as usize, &x, &y, acc, i);
                    }
                    acc.evaluations += 1;
                    // distinct_nontrivial: argument strings containing at least one of '/', '.', '..' next to a name
                    if arg.contains('/') || arg.contains("..") {
                        acc.fingerprints.insert(Rng::derive(len as u64, &arg, i).0);
                    }
                    i += shards;
                }
            });
        });
        total.merge(acc);
    }
    // random strings over arbitrary characters, and chains of join/parent/root against a reference stack
    let nrand = a.n(2000, 20000);
    let acc = par_run(a, "c06-random", nrand, |a, idx, acc| {
        let mut rng = Rng::derive(a.seed, "c06-random", idx);
        with_ctx(|cx| {
            for k in 0..200u64 {
                let n = rng.below(12);
                let mut s = String::new();
                for _ in 0..n {
                    match rng.below(10) {
                        0 | 1 | 2 => s.push('/'),
                        3 => s.push('.'),
                        4 => s.push_str(".."),
                        5 => s.push(*rng.pick(&['é', 'ß', '日', '🦀', '\u{0301}', ' ', '\\', '\0', '\n'])),
                        _ => s.push((b'a' + rng.below(4) as u8) as char),
                    }
                }
                let bi = rng.below(4);
                check_one(cx, bi, &s, acc, idx * 1000 + k, k % 3 == 0);
                acc.evaluations += 1;
                acc.fingerprints.insert(Rng::derive(1, &s, 0).0);
            }
            // chain
            let mut cur = cx.root.clone();
            let mut stack: Vec<String> = vec![];
            for k in 0..60u64 {
                match rng.below(6) {
                    0 => {
                        match guard(|| cur.parent()) {
                            Ok(p) => cur = p,
                            Err(p) => {
                                viol(acc, "panic-in-accessor", format!("parent() of {:?} panicked: {}", cur.as_str(), p.message), cur.as_str(), "<parent>", idx * 1000 + k);
                                break;
                            }
                        }
                        stack.pop();
                    }
                    1 if rng.chance(1, 4) => {
                        cur = cur.root();
                        stack.clear();
                    }
                    _ => {
                        let nt = rng.range(1, 4);
                        let arg: String = (0..nt).map(|_| *rng.pick(TOKENS)).collect();
                        let base: String = stack.iter().map(|c| format!("/{}", c)).collect();
                        match (guard(|| cur.join(&arg)), ref_join(&base, &arg)) {
                            (Ok(Ok(p)), Ok(w)) => {
                                cur = p;
                                stack = w.split('/').filter(|c| !c.is_empty()).map(|c| c.to_string()).collect();
                            }
                            (Ok(Err(_)), Err(())) => {}
                            (g, w) => {
                                viol(acc, "chain-outcome", format!("in a chain, join({:?}, {:?}) = {:?} but reference {:?}", base, arg, g.map(|r| r.map(|p| p.as_str().to_string()).map_err(|e| e.to_string())).map_err(|p| p.message), w), &base, &arg, idx * 1000 + k);
                                break;
                            }
                        }
                    }
                }
                let want: String = stack.iter().map(|c| format!("/{}", c)).collect();
                if cur.as_str() != want {
                    viol(acc, "chain-state", format!("after a chain of join/parent/root the path is {:?}, reference {:?}", cur.as_str(), want), &want, "<chain>", idx * 1000 + k);
                    break;
                }
                acc.steps += 1;
            }
        });
    });
    total.merge(acc);
    total.sample(0, J::obj().set("sweep", J::s(format!("all concatenations of 0..={} tokens from {:?} against bases [\"\",\"/x\",\"/x/é\",\"/x/y.z/w\"]", max_tokens, TOKENS))).set("example_args", J::arr((0..8).map(|i| J::s(nth_string(1234 + i * 977, 5))))));
    (total, true)
}
