//! C07 — AltrootFS is an exact and confined re-rooting (and PhysicalFS is confined to its root).
//! Monitors: call log between the altroot and its underlying filesystem, decoys next to P, view = subtree
//! re-rooted, twin execution of the translated operation on a twin underlying filesystem, hostile join strings.

use crate::cfg::{build, Built, Cfg, Role};
use crate::gen::{gen_op, Domain, Universe};
use crate::json::{bytes_repr, J};
use crate::model::{is_under, Model, Node};
use crate::ops::{at, exec_via, render_res, Op, Res};
use crate::props::c06::ref_join;
use crate::props::par_run;
use crate::report::{Acc, Violation};
use crate::rng::Rng;
use crate::snapshot::{snapshot, Snap};
use crate::Args;
use std::collections::BTreeMap;
use vfs::VfsPath;

const BASES: &[&str] = &["", "/alt", "/alt/p", "/alt/p/q"];

fn under_cfg(rng: &mut Rng) -> Cfg {
    match rng.below(6) {
        0 | 1 => Cfg::Mem,
        2 | 3 => Cfg::Phys,
        4 => Cfg::Ovl(vec![(Cfg::Mem, "".into()), (if rng.chance(1, 2) { Cfg::Mem } else { Cfg::Phys }, "/__lay1".into())]),
        _ => Cfg::Alt(Box::new(if rng.chance(1, 2) { Cfg::Mem } else { Cfg::Phys }), "/inner/base".into()),
    }
}

/// decoys placed in the underlying filesystem around P
fn decoys(p: &str) -> BTreeMap<String, Node> {
    let mut t = BTreeMap::new();
    t.insert("/outside.txt".to_string(), Node::File(b"outside".to_vec()));
    t.insert("/a".to_string(), Node::Dir); // same name as a universe component, but at the underlying root
    t.insert("/a/decoy".to_string(), Node::File(b"decoy-a".to_vec()));
    if !p.is_empty() {
        // prefix-twin of every ancestor and files inside the ancestors
        let comps: Vec<&str> = p[1..].split('/').collect();
        let mut cur = String::new();
        for c in comps {
            let twin = format!("{}/{}2", cur, c);
            t.insert(twin.clone(), Node::Dir);
            t.insert(format!("{}/twin.txt", twin), Node::File(format!("twin of {}", c).into_bytes()));
            t.insert(format!("{}/sibling-of-{}.txt", cur, c), Node::File(b"sibling".to_vec()));
            cur = format!("{}/{}", cur, c);
            t.insert(cur.clone(), Node::Dir);
        }
    }
    t
}

fn hostile_path(root: &VfsPath, canonical: &str, u: &Universe, rng: &mut Rng) -> (VfsPath, String) {
    // base: a random universe path or the root; expression: climbs above the root (clamped), then descends
    if rng.chance(1, 3) {
        return (at(root, canonical), format!("root.join({:?})", if canonical.is_empty() { "" } else { &canonical[1..] }));
    }
    let base = if rng.chance(1, 3) { String::new() } else { rng.pick(&u.paths).clone() };
    let depth = base.matches('/').count();
    let mut expr = String::new();
    if rng.chance(1, 3) {
        expr.push('/'); // absolute: restarts at the (alt) root
        if rng.chance(1, 2) {
            expr.push_str("../../");
        }
    } else {
        for _ in 0..depth + rng.below(4) {
            expr.push_str(if rng.chance(1, 4) { ".././" } else { "../" });
        }
    }
    let comps: Vec<&str> = canonical.split('/').filter(|c| !c.is_empty()).collect();
    for (i, c) in comps.iter().enumerate() {
        match rng.below(5) {
            0 => expr.push_str("./"),
            1 => expr.push('/'),
            2 => {
                expr.push_str("zz/../");
            }
            _ => {}
        }
        expr.push_str(c);
        if i + 1 < comps.len() {
            expr.push('/');
        }
    }
    while expr.len() > 1 && expr.ends_with('/') {
        expr.pop();
    }
    if expr.is_empty() {
        expr.push('.');
    }
    match ref_join(&base, &expr) {
        Ok(r) if r == canonical => match at(root, &base).join(&expr) {
            Ok(p) => (p, format!("at({:?}).join({:?})", base, expr)),
            Err(_) => (at(root, canonical), "root.join(canonical) [hostile join rejected]".into()),
        },
        _ => (at(root, canonical), "root.join(canonical)".into()),
    }
}

fn subtree(full: &Model, p: &str) -> Model {
    let mut m = Model { m: BTreeMap::new() };
    for (k, n) in &full.m {
        if k == p {
            m.m.insert(String::new(), n.clone());
        } else if is_under(k, p) || p.is_empty() {
            m.m.insert(k[p.len()..].to_string(), n.clone());
        }
    }
    m
}

fn outside(full: &Model, p: &str) -> BTreeMap<String, Node> {
    full.m.iter().filter(|(k, _)| !(k.as_str() == p || is_under(k, p) || p.is_empty())).map(|(k, n)| (k.clone(), n.clone())).collect()
}

fn phys_outside_state(b: &Built) -> Vec<String> {
    let mut v = vec![];
    for n in &b.nodes {
        if let Some(d) = &n.phys_dir {
            let mut names: Vec<String> = std::fs::read_dir(d).map(|it| it.filter_map(|e| e.ok()).map(|e| e.file_name().to_string_lossy().to_string()).collect()).unwrap_or_default();
            names.sort();
            v.push(format!("{:?} outside={:?} twin={:?} root2={:?}", names, std::fs::read(d.join("outside.txt")).ok(), std::fs::read(d.join("root2/twin.txt")).ok(), std::fs::read_dir(d.join("root2")).map(|i| i.count()).ok()));
        }
    }
    v
}

pub fn run_case(a: &Args, tag: &'static str, idx: u64, acc: &mut Acc) {
    let mut rng = Rng::derive(a.seed, tag, idx);
    let universe = Universe::generate(&mut rng);
    let ucfg = under_cfg(&mut rng);
    let p = rng.pick(BASES).to_string();
    let cfg = Cfg::Alt(Box::new(ucfg.clone()), p.clone());
    let b = build(&cfg);
    let twin = build(&ucfg);
    let under = b.nodes.iter().find(|n| matches!(&n.role, Role::AltUnder { of, .. } if *of == 0)).unwrap();
    let under_id = under.id;
    let under_root = under.root.clone();
    let dec = decoys(&p);
    let r1 = crate::prepop::write_tree(&under_root, "", &dec.iter().filter(|(k, _)| !(k.as_str() == p || is_under(&p, k))).map(|(k, n)| (k.clone(), n.clone())).collect());
    let r2 = at(&twin.root, &p).create_dir_all().map_err(|e| e.to_string()).and_then(|_| crate::prepop::write_tree(&twin.root, "", &dec.iter().filter(|(k, _)| !(k.as_str() == p || is_under(&p, k))).map(|(k, n)| (k.clone(), n.clone())).collect()));
    if r1.is_err() || r2.is_err() {
        acc.count("setup_failed", 1);
        acc.note("setup_failures", format!("{:?} {:?}", r1.err(), r2.err()));
        return;
    }
    // probe sets: the altroot sees the universe; the underlying sees P+universe plus the decoys
    let probe_alt = universe.paths.clone();
    let mut probe_under: Vec<String> = universe.paths.iter().map(|q| format!("{}{}", p, q)).collect();
    probe_under.extend(dec.keys().cloned());
    probe_under.extend(universe.paths.iter().take(12).cloned()); // same names at the underlying root
    // timestamp setters included: the altroot must answer exactly like the underlying filesystem (outcome only;
    // the snapshots carry no timestamps)
    let mut domain = Domain::untyped();
    domain.root_targets = true;
    let mut trace: Vec<String> = vec![];
    let phys0 = phys_outside_state(&b);
    let mut su = snapshot(&under_root, &probe_under, 4096);
    let out0 = outside(&su.tree(), &p);
    acc.evaluations += 1;
    let nsteps = rng.range(6, 18);
    let mk = |trace: &Vec<String>, what: J| J::obj().set("tag", J::s(tag)).set("seed", J::i(a.seed)).set("history", J::i(idx)).set("config", J::s(cfg.desc())).set("names", J::arr(universe.names.iter().map(J::s))).set("trace", J::arr(trace.iter().map(J::s))).set("what", what);
    for step in 1..=nsteps {
        let view = subtree(&su.tree(), &p);
        let op = gen_op(&mut rng, &domain, &universe, &view);
        // not demanded: transfers whose source has the wrong type or whose destination lies inside the source
        // (left unspecified by C01; the fast path of a backend and the generic fallback legitimately differ there)
        let mut last_step_unspecified = false;
        if op.dest().is_some() && view.expect(&op) == crate::model::Exp::Unspec {
            // a directory transfer into its own subtree does not terminate (documented); every other unspecified
            // transfer (wrong-typed source, the root as source) is still run — as the last step of the history, with
            // the confinement monitors and the no-panic rule only
            let into_itself = matches!(&op, Op::CopyDir(sx, dx) | Op::MoveDir(sx, dx) if dx == sx || is_under(dx, sx) || sx.is_empty());
            if into_itself || !rng.chance(1, 3) {
                continue;
            }
            last_step_unspecified = true;
        }
        let class = view.class(op.path());
        let clsig = match op.dest() { Some(d) => format!("{}->{}", class.name(), view.class(d).name()), None => class.name().to_string() };
        // translated twin operation
        let tr = |q: &str| format!("{}{}", p, q);
        let mut top = op.clone();
        match &mut top {
            Op::CreateDir(x) | Op::RemoveFile(x) | Op::RemoveDir(x) | Op::ReadDir(x) | Op::Metadata(x) | Op::Exists(x) | Op::IsFile(x) | Op::IsDir(x) | Op::CreateDirAll(x) | Op::RemoveDirAll(x) | Op::ReadToString(x) | Op::WalkDir(x) => *x = tr(x),
            Op::CreateFile(x, _) | Op::AppendFile(x, _) | Op::OpenRead(x, _) | Op::SetTime(x, ..) | Op::HoldOpen(x, ..) | Op::Publish(x) => *x = tr(x),
            Op::CopyFile(x, y) | Op::MoveFile(x, y) | Op::CopyDir(x, y) | Op::MoveDir(x, y) => {
                *x = tr(x);
                *y = tr(y);
            }
        }
        crate::panicmon::set_context(format!("tag={} case={} step={} config={} op={} [target {}] (earlier steps: {})", tag, idx, step, cfg.desc(), op.render(), clsig, trace.iter().rev().take(5).rev().cloned().collect::<Vec<_>>().join(" ; ")));
        let mut exprs: Vec<String> = vec![];
        let exprs_cell = std::cell::RefCell::new(&mut exprs);
        let rng_cell = std::cell::RefCell::new(&mut rng);
        b.ctl.start_recording();
        let res: Res = exec_via(
            &|q: &str| {
                let (vp, how) = hostile_path(&b.root, q, &universe, &mut rng_cell.borrow_mut());
                exprs_cell.borrow_mut().push(how);
                vp
            },
            &op,
        );
        let events = b.ctl.stop_recording();
        let tres: Res = crate::ops::exec(&twin.root, &top);
        let sa = snapshot(&b.root, &probe_alt, 4096);
        let nu = snapshot(&under_root, &probe_under, 4096);
        let st = snapshot(&twin.root, &probe_under, 4096);
        acc.steps += 1;
        acc.fingerprints.insert(nu.fingerprint());
        acc.cell(format!("{}|{}|{}|P-depth{}|{}", op.name(), clsig, if res.is_ok() { "Ok" } else { "Err" }, p.matches('/').count(), ucfg.shape()));
        trace.push(format!("{:>2}. {} via {:?} [{}] => {}   twin {} => {}", step, op.render(), exprs, clsig, render_res(&res), top.render(), render_res(&tres)));
        if a.only.is_some() {
            eprintln!("{}", trace.last().unwrap());
        }
        let order = idx * 1000 + step as u64;
        if let Err(e) = &res {
            if let Some(pi) = &e.panic {
                acc.violate(Violation { property: "C13", signature: format!("panic|{}|{}|{}|{}", op.name(), clsig, pi.head(), pi.file()), summary: format!("{} panicked: {}", op.render(), pi.message), detail: mk(&trace, J::Null), order });
                if !matches!(&tres, Err(te) if te.panic.is_some()) {
                    acc.violate(Violation { property: "C07", signature: format!("altroot-panics|{}|{}|twin:{}", op.name(), clsig, if tres.is_ok() { "Ok" } else { "Err" }), summary: format!("{} through the altroot panicked ({} at {}) while the same operation on P/q of the underlying filesystem returned {}", op.render(), pi.message, pi.location, render_res(&tres)), detail: mk(&trace, J::Null), order });
                }
                return;
            }
            crate::errmon::check_op_error(&cfg, &op, &view, e, acc, &|s, summary, what| Violation { property: "C12", signature: s, summary, detail: what, order });
        }
        // (a) confinement of the call log
        for e in events.iter().filter(|e| e.node == under_id) {
            for q in [Some(&e.path), e.path2.as_ref()].into_iter().flatten() {
                let inside = q == &p || is_under(q, &p) || p.is_empty();
                if !inside {
                    let ancestor_probe = is_under(&p, q) || q.is_empty();
                    let tolerated = ancestor_probe && matches!(e.method, "exists" | "metadata");
                    if !tolerated {
                        acc.violate(Violation {
                            property: "C07",
                            signature: format!("escape|{}|{}|via:{}|{}", op.name(), clsig, e.method, if ancestor_probe { "ancestor" } else { "outside" }),
                            summary: format!("{} (altroot at {:?}) issued {} on the underlying filesystem, outside P", op.render(), p, e.render()),
                            detail: mk(&trace, J::arr(events.iter().take(40).map(|e| J::s(e.render())))),
                            order,
                        });
                    }
                }
            }
        }
        acc.count("underlying_calls_checked", events.iter().filter(|e| e.node == under_id).count() as u64);
        // (b) nothing outside P changed
        let out_now = outside(&nu.tree(), &p);
        if out_now != out0 {
            let changed: Vec<&String> = out0.keys().chain(out_now.keys()).filter(|k| out0.get(*k) != out_now.get(*k)).collect();
            acc.violate(Violation { property: "C07", signature: format!("outside-changed|{}|{}", op.name(), clsig), summary: format!("{} through the altroot at {:?} changed entries outside P: {:?}", op.render(), p, changed), detail: mk(&trace, J::Null), order });
            return;
        }
        let physn = phys_outside_state(&b);
        if physn != phys0 {
            acc.violate(Violation { property: "C07", signature: format!("physical-root-escaped|{}|{}", op.name(), clsig), summary: format!("{} changed something outside the PhysicalFS root directory: {:?} -> {:?}", op.render(), phys0, physn), detail: mk(&trace, J::Null), order });
            return;
        }
        // (c) the altroot view is exactly the subtree below P, re-rooted
        let want_view = subtree(&nu.tree(), &p);
        let got_view = sa.tree();
        if want_view != got_view {
            let k: Vec<&String> = want_view.m.keys().chain(got_view.m.keys()).filter(|k| want_view.m.get(*k) != got_view.m.get(*k)).collect();
            acc.violate(Violation { property: "C07", signature: format!("view-differs|{}|{}", op.name(), clsig), summary: format!("after {} the altroot view differs from the subtree below {:?} at {:?}", op.render(), p, k), detail: mk(&trace, J::Null), order });
            return;
        }
        if last_step_unspecified {
            // outcome and effect of an unspecified transfer may legitimately differ between the routes: the history
            // ends here, after the no-panic, confinement and view monitors
            acc.count("unspecified_transfers_run_as_last_step", 1);
            return;
        }
        // (d) same outcome and effect as the translated operation on the twin
        let same_outcome = match (&res, &tres) {
            (Ok(x), Ok(y)) => {
                // paths inside return values are re-rooted
                let norm = |o: &crate::ops::Out, pre: &str| match o {
                    crate::ops::Out::Walk(w) => crate::ops::Out::Names({
                        let mut v: Vec<String> = w.iter().map(|i| match i { Ok(q) => q.strip_prefix(pre).unwrap_or(q).to_string(), Err(e) => format!("ERR:{}", e.kind.name()) }).collect();
                        v.sort();
                        v
                    }),
                    o => o.clone(),
                };
                norm(x, "") == norm(y, &p)
            }
            // transfers may take different routes (rename fast path vs stream fallback): only failure is compared there
            (Err(x), Err(y)) => op.dest().is_some() || x.kind == y.kind || x.is_handle_io() && y.is_handle_io(),
            _ => false,
        };
        if !same_outcome {
            acc.violate(Violation { property: "C07", signature: format!("twin-outcome|{}|{}|alt:{}|twin:{}", op.name(), clsig, crate::ops::res_class(&res), crate::ops::res_class(&tres)), summary: format!("{} on the altroot => {} but {} on the underlying twin => {}", op.render(), render_res(&res), top.render(), render_res(&tres)), detail: mk(&trace, J::Null), order });
            return;
        }
        if nu.tree() != st.tree() {
            let (x, y) = (nu.tree(), st.tree());
            let k: Vec<&String> = x.m.keys().chain(y.m.keys()).filter(|k| x.m.get(*k) != y.m.get(*k)).collect();
            acc.violate(Violation { property: "C07", signature: format!("twin-effect|{}|{}", op.name(), clsig), summary: format!("{} through the altroot and {} on the twin leave different trees at {:?}", op.render(), top.render(), k), detail: mk(&trace, J::Null), order });
            return;
        }
        su = nu;
        let _ = &sa as &Snap;
        // (f) exactness under a failing underlying filesystem: an observer whose k-th call into the underlying
        // filesystem fails must have the same outcome through the altroot as the translated observer on the twin
        if rng.chance(1, 2) {
            let q = if rng.chance(1, 6) { String::new() } else { rng.pick(&universe.paths).clone() };
            let obs = match rng.below(7) {
                0 => Op::Exists(q),
                1 => Op::Metadata(q),
                2 => Op::IsFile(q),
                3 => Op::IsDir(q),
                4 => Op::ReadDir(q),
                5 => Op::ReadToString(q),
                _ => Op::OpenRead(q, vec![]),
            };
            let mut tobs = obs.clone();
            match &mut tobs {
                Op::Exists(x) | Op::Metadata(x) | Op::IsFile(x) | Op::IsDir(x) | Op::ReadDir(x) | Op::ReadToString(x) => *x = tr(x),
                Op::OpenRead(x, _) => *x = tr(x),
                _ => {}
            }
            let k = rng.range(1, 2) as u64;
            b.ctl.arm(k, under_id);
            let r1 = crate::ops::exec(&b.root, &obs);
            let (_, inj1, _, _) = b.ctl.disarm();
            twin.ctl.arm(k, 0);
            let r2 = crate::ops::exec(&twin.root, &tobs);
            let (_, inj2, _, _) = twin.ctl.disarm();
            if inj1 > 0 && inj2 > 0 {
                acc.count("fault_equivalence_checks", 1);
                if r1.is_ok() != r2.is_ok() {
                    acc.violate(Violation {
                        property: "C07",
                        signature: format!("fault-outcome|{}|alt:{}|twin:{}", obs.name(), crate::ops::res_class(&r1), crate::ops::res_class(&r2)),
                        summary: format!("with the {}. call into the underlying filesystem failing, {} through the altroot => {} but {} on the underlying twin => {}", k, obs.render(), render_res(&r1), tobs.render(), render_res(&r2)),
                        detail: mk(&trace, J::Null),
                        order,
                    });
                }
            }
        }
    }
    if idx < 3 {
        acc.sample(idx, J::obj().set("case", J::i(idx)).set("config", J::s(cfg.desc())).set("decoys", J::arr(dec.iter().map(|(k, n)| J::s(match n { Node::Dir => format!("{}/", k), Node::File(b) => format!("{}={}", k, bytes_repr(b)) })))).set("ops", J::arr(trace.iter().map(J::s))));
    }
    acc.note("config_shapes", cfg.shape());
}

pub fn run(a: &Args) -> Acc {
    let n = a.n(5000, 60000);
    par_run(a, "c07", n, |a, idx, acc| run_case(a, "c07", idx, acc))
}


/// OS-boundary monitor (thorough tier, run under `strace -f -e trace=%file`): single-threaded physical workload
/// whose library calls are bracketed by marker syscalls (`access("/VERIF-MARK-BEGIN")` / `...-END`); the driver
/// checks that every path-taking syscall inside a window names a path inside the PhysicalFS root directory.
pub fn run_strace_workload(a: &Args) -> Acc {
    let mut acc = Acc::new();
    let n = a.n(150, 600);
    let mark = |name: &str| {
        let _ = std::fs::metadata(format!("/VERIF-MARK-{}", name));
    };
    for idx in 0..n {
        let mut rng = Rng::derive(a.seed, "c07-strace", idx);
        let universe = Universe::generate(&mut rng);
        let cfg = if rng.chance(1, 2) { Cfg::Phys } else { Cfg::Alt(Box::new(Cfg::Phys), rng.pick(BASES).to_string()) };
        let b = build(&cfg);
        // tell the driver which directory is the root of this history
        let rootdir = b.nodes.iter().find_map(|n| n.phys_dir.clone()).unwrap().join("root");
        let _ = std::fs::metadata(format!("/VERIF-ROOT{}", rootdir.display()));
        let mut domain = Domain::untyped();
        domain.weights.retain(|w| w.0 != "set_time");
        let probe = universe.paths.clone();
        let mut tree = snapshot(&b.root, &probe, 4096).tree();
        acc.evaluations += 1;
        for _ in 0..rng.range(6, 14) {
            let op = gen_op(&mut rng, &domain, &universe, &tree);
            let rng_cell = std::cell::RefCell::new(&mut rng);
            mark("BEGIN");
            let _ = exec_via(&|q: &str| hostile_path(&b.root, q, &universe, &mut rng_cell.borrow_mut()).0, &op);
            mark("END");
            acc.steps += 1;
            mark("BEGIN");
            let s = snapshot(&b.root, &probe, 4096);
            if idx == 3 && std::env::var("VERIF_STRACE_SELFTEST").is_ok() {
                // monitor self-test: an access outside the root inside a window must be reported by the parser
                let _ = std::fs::metadata(rootdir.parent().unwrap().join("outside.txt"));
            }
            mark("END");
            acc.fingerprints.insert(s.fingerprint());
            tree = s.tree();
        }
    }
    acc.sample(0, J::s("physical / altroot-over-physical histories with hostile join expressions, library calls bracketed by marker syscalls for the strace parser"));
    acc
}
