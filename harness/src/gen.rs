//! Path universe and state-aware operation generator (DESIGN §2.1).

use crate::model::{Class, Exp, Model, ALL_CLASSES};
use crate::ops::{Op, RStep, TimeField, WStep};
use crate::rng::Rng;
use std::collections::BTreeSet;

/// `a\b` and `..\x`: a backslash is an ordinary name character for this crate (and on the host filesystem here);
/// `a b`: names with a space; `y_wo`: ends like the overlay's deletion markers (there is no `y`: KF3 needs the pair)
pub const NAMES: &[&str] = &["a", "ab", "a.b", "b", "é", "d.x", ".h", "x_w", "..x", "...", "a\\b", "..\\x", "a b", "y_wo"];

/// Pairs (base, extension): the extension's text starts with the base's text, followed by a character that sorts
/// below '/' ('.', ' ', '-'), above it, or is a plain letter — siblings whose keys interleave with the base's
/// subtree in ordered maps and whose paths share a textual prefix. (Never a pair (n, n_wo): KF3.)
pub const FAMILIES: &[(&str, &str)] = &[("a", "ab"), ("a", "a.b"), ("a", "a\\b"), ("a", "a b"), ("a", "a-1"), ("b", "b2"), ("é", "éé"), (".h", ".h.x"), ("d.x", "d.x.y"), ("x_w", "x_w2"), ("..x", "..x.")];

#[derive(Clone, Debug)]
pub struct Universe {
    pub names: Vec<&'static str>,
    pub depth: usize,
    /// all non-root canonical paths
    pub paths: Vec<String>,
}

impl Universe {
    pub fn generate(rng: &mut Rng) -> Universe {
        let mut pool: Vec<&'static str> = NAMES.to_vec();
        rng.shuffle(&mut pool);
        // make prefix-related siblings likely
        let (n, depth) = match rng.below(8) {
            0 | 1 => (4, 2),
            2 | 3 => (2, 3),
            4 => (2, 4), // deeper paths now and then (30 paths)
            _ => (3, 3),
        };
        let mut names: Vec<&'static str> = pool[..n].to_vec();
        if rng.chance(1, 2) && !names.contains(&"a") {
            names[0] = "a";
        }
        if rng.chance(1, 2) && !names.contains(&"ab") && names.contains(&"a") {
            let i = names.iter().position(|x| *x != "a").unwrap();
            names[i] = "ab";
        }
        // one universe in three is built around a family pair
        if rng.chance(1, 3) {
            let (base, ext) = *rng.pick(FAMILIES);
            names.retain(|x| *x != base && *x != ext);
            names.truncate(n.saturating_sub(2));
            names.insert(0, base);
            names.insert(1, ext);
        }
        Universe::new(names, depth)
    }
    pub fn new(names: Vec<&'static str>, depth: usize) -> Universe {
        let mut paths = vec![];
        let mut level = vec![String::new()];
        for _ in 0..depth {
            let mut next = vec![];
            for p in &level {
                for n in &names {
                    let c = format!("{}/{}", p, n);
                    paths.push(c.clone());
                    next.push(c);
                }
            }
            level = next;
        }
        Universe { names, depth, paths }
    }
}

#[derive(Clone, Debug)]
pub struct Domain {
    pub weights: Vec<(&'static str, u32)>,
    /// never generate a step the model leaves unspecified (C01's exclusions)
    pub typed: bool,
    /// allow the root as target of any op (otherwise only observers see the root)
    pub root_targets: bool,
    /// probability (per mille) of a big (8 KiB-boundary) content
    pub big_content_permille: u64,
    /// write scripts with seeks/flushes inside sessions
    pub rich_scripts: bool,
    /// keys "op|class" (and "op|class|destclass") never generated (steering around listed findings)
    pub avoid: BTreeSet<String>,
    /// never remove the root (C03: "removal of the root itself aside")
    pub keep_root: bool,
    /// open_file followed by a read/seek script (moderate offsets) instead of a plain read_to_end
    pub read_scripts: bool,
    /// read/seek scripts use extreme offsets (i64::MIN/MAX, u64::MAX, +-len+-1) — C13 only
    pub extreme_scripts: bool,
    /// seeks inside append sessions (memory-backed configurations only: O_APPEND differs by design)
    pub append_seeks: bool,
    /// model-free workloads only: now and then a write handle is opened and kept open across later steps, and
    /// dropped (published) later — the filesystem may have changed under it in between
    pub hold_handles: bool,
}

pub fn weights_full() -> Vec<(&'static str, u32)> {
    vec![
        ("create_dir", 10),
        ("create_file", 10),
        ("append_file", 6),
        ("remove_file", 7),
        ("remove_dir", 7),
        ("open_read", 3),
        ("read_dir", 2),
        ("metadata", 2),
        ("exists", 1),
        ("is_file", 1),
        ("is_dir", 1),
        ("create_dir_all", 4),
        ("remove_dir_all", 4),
        ("copy_file", 4),
        ("move_file", 4),
        ("copy_dir", 3),
        ("move_dir", 3),
        ("read_to_string", 2),
        ("walk_dir", 2),
    ]
}

impl Domain {
    pub fn typed() -> Domain {
        Domain {
            weights: weights_full(),
            typed: true,
            root_targets: false,
            big_content_permille: 20,
            rich_scripts: false,
            avoid: BTreeSet::new(),
            keep_root: true,
            read_scripts: false,
            extreme_scripts: false,
            append_seeks: false,
            hold_handles: false,
        }
    }
    pub fn untyped() -> Domain {
        let mut w = weights_full();
        w.push(("set_time", 3));
        Domain {
            weights: w,
            typed: false,
            root_targets: true,
            big_content_permille: 10,
            rich_scripts: false,
            avoid: BTreeSet::new(),
            keep_root: true,
            read_scripts: false,
            extreme_scripts: false,
            append_seeks: false,
            hold_handles: true,
        }
    }
}

pub const CONTENT_LENS: &[usize] = &[0, 1, 2, 7, 255];
pub const BIG_LENS: &[usize] = &[8191, 8192, 8193, 16384, 65537];

pub fn gen_content(rng: &mut Rng, big_permille: u64) -> Vec<u8> {
    let len = if rng.chance(big_permille, 1000) { *rng.pick(BIG_LENS) } else { *rng.pick(CONTENT_LENS) };
    let utf8 = rng.chance(1, 2);
    rng.bytes(len, utf8)
}

pub fn gen_wscript(rng: &mut Rng, d: &Domain) -> Vec<WStep> {
    gen_wscript_opt(rng, d, true)
}

pub fn gen_wscript_opt(rng: &mut Rng, d: &Domain, seeks: bool) -> Vec<WStep> {
    let mut s = vec![];
    let n = match rng.below(6) {
        0 => 0,
        1 | 2 | 3 => 1,
        _ => 2,
    };
    for _ in 0..n {
        if d.rich_scripts && seeks && rng.chance(1, 3) {
            let whence = rng.below(3) as u8;
            let off = if whence == 0 { [0i64, 1, 2, 5, 300, 8192][rng.below(6)] } else { [0i64, 1, 2, 5, -1, -3, -300, 9000][rng.below(8)] };
            s.push(WStep::Seek(whence, off));
        }
        let mut content = gen_content(rng, d.big_content_permille);
        if d.rich_scripts && seeks && content.is_empty() {
            // zero-length writes beyond the end are not "writing past the end" (Cursor pads, File does not)
            content = vec![b'z'];
        }
        s.push(WStep::Write(content));
        if d.rich_scripts && rng.chance(1, 4) {
            s.push(WStep::Flush);
        }
    }
    s
}

pub fn gen_rscript(rng: &mut Rng) -> Vec<RStep> {
    if rng.chance(1, 2) {
        return vec![];
    }
    let mut s = vec![];
    for _ in 0..rng.range(1, 4) {
        match rng.below(3) {
            0 => s.push(RStep::Read([0usize, 1, 2, 7, 300, 9000][rng.below(6)])),
            1 => {
                let whence = rng.below(3) as u8;
                let mag = [0i64, 1, 2, 7, 300][rng.below(5)];
                // SeekFrom::Start takes an unsigned offset: only Current/End get negative ones
                let off = if whence != 0 && rng.chance(1, 3) { -mag } else { mag };
                s.push(RStep::Seek(whence, off))
            }
            _ => s.push(RStep::ReadToEnd),
        }
    }
    s
}

pub const EXTREME_OFFSETS: &[i64] = &[i64::MIN, i64::MIN + 1, -9000, -256, -8, -2, -1, 0, 1, 2, 7, 8, 255, 256, 8192, i64::MAX - 1, i64::MAX];

pub fn gen_rscript_extreme(rng: &mut Rng) -> Vec<RStep> {
    let mut s = vec![];
    for _ in 0..rng.range(1, 6) {
        match rng.below(4) {
            0 => s.push(RStep::Read([0usize, 1, 2, 7, 300, 9000][rng.below(6)])),
            1 | 2 => {
                let whence = rng.below(3) as u8;
                let off = if whence == 0 { [0i64, 1, 7, 255, 8192, -1 /* = u64::MAX */, i64::MAX, i64::MIN /* = 2^63 */][rng.below(8)] } else { *rng.pick(EXTREME_OFFSETS) };
                s.push(RStep::Seek(whence, off))
            }
            _ => s.push(RStep::ReadToEnd),
        }
    }
    s
}

fn pick_path(rng: &mut Rng, u: &Universe, m: &Model, root_ok: bool) -> String {
    // with probability 0.6: choose a precondition class first, then a path in it
    if rng.chance(6, 10) {
        let want = *rng.pick(ALL_CLASSES);
        if want == Class::Root {
            if root_ok && rng.chance(1, 3) {
                return String::new();
            }
        } else {
            let start = rng.below(u.paths.len());
            for i in 0..u.paths.len() {
                let p = &u.paths[(start + i) % u.paths.len()];
                if m.class(p) == want {
                    return p.clone();
                }
            }
        }
    }
    if root_ok && rng.chance(1, 25) {
        return String::new();
    }
    rng.pick(&u.paths).clone()
}

pub fn avoid_key(op: &Op, m: &Model) -> String {
    match op.dest() {
        Some(d) => format!("{}|{}|{}", op.name(), m.class(op.path()).name(), m.class(d).name()),
        None => format!("{}|{}", op.name(), m.class(op.path()).name()),
    }
}

pub fn gen_op(rng: &mut Rng, d: &Domain, u: &Universe, m: &Model) -> Op {
    let weights: Vec<u32> = d.weights.iter().map(|x| x.1).collect();
    for _ in 0..40 {
        let kind = d.weights[rng.weighted(&weights)].0;
        let observer = matches!(
            kind,
            "open_read" | "read_dir" | "metadata" | "exists" | "is_file" | "is_dir" | "read_to_string" | "walk_dir"
        );
        let root_ok = d.root_targets || observer;
        let p = pick_path(rng, u, m, root_ok);
        let op = match kind {
            "create_dir" => Op::CreateDir(p),
            "create_file" => Op::CreateFile(p, gen_wscript(rng, d)),
            "append_file" => Op::AppendFile(p, gen_wscript_opt(rng, d, d.append_seeks)),
            "remove_file" => Op::RemoveFile(p),
            "remove_dir" => Op::RemoveDir(p),
            "open_read" => Op::OpenRead(p, if d.extreme_scripts { gen_rscript_extreme(rng) } else if d.read_scripts { gen_rscript(rng) } else { vec![] }),
            "read_dir" => Op::ReadDir(p),
            "metadata" => Op::Metadata(p),
            "exists" => Op::Exists(p),
            "is_file" => Op::IsFile(p),
            "is_dir" => Op::IsDir(p),
            "create_dir_all" => Op::CreateDirAll(p),
            "remove_dir_all" => Op::RemoveDirAll(p),
            "read_to_string" => Op::ReadToString(p),
            "walk_dir" => Op::WalkDir(p),
            "set_time" => {
                let f = [TimeField::Created, TimeField::Modified, TimeField::Accessed][rng.below(3)];
                Op::SetTime(p, f, [0u64, 1, 1_000_000_000, 4_000_000_000][rng.below(4)], [0u32, 1, 999_999_999, 500][rng.below(4)])
            }
            _ => {
                let dst = pick_path(rng, u, m, d.root_targets);
                match kind {
                    "copy_file" => Op::CopyFile(p, dst),
                    "move_file" => Op::MoveFile(p, dst),
                    "copy_dir" => Op::CopyDir(p, dst),
                    _ => Op::MoveDir(p, dst),
                }
            }
        };
        // documented non-termination: never generated anywhere
        if let Op::CopyDir(s, t) | Op::MoveDir(s, t) = &op {
            if crate::model::is_under(t, s) || (s.is_empty()) {
                continue;
            }
        }
        if d.keep_root {
            let removes_root = match &op {
                Op::RemoveDir(p) | Op::RemoveDirAll(p) | Op::RemoveFile(p) => p.is_empty(),
                Op::MoveDir(s, _) | Op::MoveFile(s, _) => s.is_empty(),
                Op::CreateFile(p, _) | Op::AppendFile(p, _) => p.is_empty(),
                _ => false,
            };
            if removes_root {
                continue;
            }
        }
        if d.typed && m.expect(&op) == Exp::Unspec {
            continue;
        }
        return op;
    }
    Op::Exists(rng.pick(&u.paths).clone())
}
