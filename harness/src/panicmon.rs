//! Panic monitor: every library call made by a workload goes through `guard`.
//! A process-wide panic hook records message + location in a thread-local instead of printing.

use std::cell::RefCell;
use std::panic::{catch_unwind, AssertUnwindSafe};
use std::sync::Once;

#[derive(Clone, Debug, PartialEq, Eq, PartialOrd, Ord)]
pub struct PanicInfo {
    pub message: String,
    pub location: String,
}

thread_local! {
    static LAST: RefCell<Option<PanicInfo>> = const { RefCell::new(None) };
    static DEPTH: std::cell::Cell<u32> = const { std::cell::Cell::new(0) };
}

static INSTALL: Once = Once::new();

pub fn install() {
    INSTALL.call_once(|| {
        std::panic::set_hook(Box::new(|info| {
            let message = if let Some(s) = info.payload().downcast_ref::<&str>() {
                s.to_string()
            } else if let Some(s) = info.payload().downcast_ref::<String>() {
                s.clone()
            } else {
                "<non-string panic payload>".to_string()
            };
            let location = info
                .location()
                .map(|l| format!("{}:{}", l.file(), l.line()))
                .unwrap_or_else(|| "<unknown>".into());
            if DEPTH.with(|d| d.get()) == 0 {
                // not inside a monitored library call: this is a harness bug, make it visible
                eprintln!("HARNESS PANIC (outside guard): {} at {}", message, location);
            }
            LAST.with(|l| *l.borrow_mut() = Some(PanicInfo { message, location }));
        }));
    });
}

// ---------------------------------------------------------------------------------------------------------
// Watchdog: a library call that never returns, or that allocates without bound, must not take the machine down
// and must not be lost. Every guarded call marks its thread's slot as busy; a watchdog thread reports the call
// that has been running too long (or the longest-running one when the process grows beyond the memory cap),
// writes `<out>.abort.json` and exits the process with code 3. The driver turns that into a violation record.

pub struct Slot {
    /// milliseconds since process start at which the outermost guarded call began; 0 = idle
    start_ms: std::sync::atomic::AtomicU64,
    ctx: std::sync::Mutex<String>,
    /// the thread was diagnosed as deadlocked by the baton scheduler (already reported): the watchdog ignores it
    abandoned: std::sync::atomic::AtomicBool,
}

impl Slot {
    pub fn abandon(&self) {
        self.abandoned.store(true, std::sync::atomic::Ordering::SeqCst);
    }
}

/// The calling thread's watchdog slot.
pub fn my_slot() -> std::sync::Arc<Slot> {
    MY_SLOT.with(|s| s.clone())
}

/// Deadlocks confirmed by the baton scheduler in this process (C16/C17 stop exploring after a few).
pub static CONFIRMED_DEADLOCKS: std::sync::atomic::AtomicU64 = std::sync::atomic::AtomicU64::new(0);

static SLOTS: std::sync::Mutex<Vec<std::sync::Arc<Slot>>> = std::sync::Mutex::new(Vec::new());
static T0: std::sync::OnceLock<std::time::Instant> = std::sync::OnceLock::new();

thread_local! {
    static MY_SLOT: std::sync::Arc<Slot> = {
        let s = std::sync::Arc::new(Slot { start_ms: std::sync::atomic::AtomicU64::new(0), ctx: std::sync::Mutex::new(String::new()), abandoned: std::sync::atomic::AtomicBool::new(false) });
        SLOTS.lock().unwrap().push(s.clone());
        s
    };
}

fn now_ms() -> u64 {
    T0.get_or_init(std::time::Instant::now).elapsed().as_millis() as u64 + 1
}

/// Describes what the current thread is about to run (history id, step, operation) for the watchdog's report.
pub fn set_context(ctx: String) {
    MY_SLOT.with(|s| *s.ctx.lock().unwrap() = ctx);
}

pub fn start_watchdog(out_file: String, limit_s: u64, rss_limit_mb: u64) {
    let _ = now_ms();
    std::thread::spawn(move || loop {
        std::thread::sleep(std::time::Duration::from_millis(250));
        let now = now_ms();
        let rss_mb = std::fs::read_to_string("/proc/self/statm").ok().and_then(|s| s.split_whitespace().nth(1).and_then(|x| x.parse::<u64>().ok())).map(|pages| pages * 4096 / (1 << 20)).unwrap_or(0);
        let slots = SLOTS.lock().unwrap().clone();
        let mut worst: Option<(u64, String)> = None;
        for s in &slots {
            let st = s.start_ms.load(std::sync::atomic::Ordering::SeqCst);
            if st != 0 && !s.abandoned.load(std::sync::atomic::Ordering::SeqCst) {
                let el = now.saturating_sub(st);
                if worst.as_ref().map(|w| el > w.0).unwrap_or(true) {
                    worst = Some((el, s.ctx.lock().map(|c| c.clone()).unwrap_or_default()));
                }
            }
        }
        let hang = worst.as_ref().map(|w| w.0 > limit_s * 1000).unwrap_or(false);
        let mem = rss_mb > rss_limit_mb;
        if hang || mem {
            let (el, ctx) = worst.unwrap_or((0, "<no guarded call in flight>".into()));
            let kind = if mem { "memory" } else { "hang" };
            let j = crate::json::J::obj().set("kind", crate::json::J::s(kind)).set("elapsed_ms", crate::json::J::i(el)).set("rss_mb", crate::json::J::i(rss_mb)).set("context", crate::json::J::s(&ctx));
            let _ = std::fs::write(format!("{}.abort.json", out_file), j.to_string());
            eprintln!("WATCHDOG: {} (rss {} MB, call running for {} ms): {}", kind, rss_mb, el, ctx);
            crate::cfg::cleanup_scratch_base();
            std::process::exit(3);
        }
    });
}

/// Runs `f`, converting an unwinding panic into `Err(PanicInfo)`.
pub fn guard<T>(f: impl FnOnce() -> T) -> Result<T, PanicInfo> {
    LAST.with(|l| *l.borrow_mut() = None);
    let outermost = DEPTH.with(|d| d.get()) == 0;
    if outermost {
        MY_SLOT.with(|s| s.start_ms.store(now_ms(), std::sync::atomic::Ordering::SeqCst));
    }
    DEPTH.with(|d| d.set(d.get() + 1));
    let r = catch_unwind(AssertUnwindSafe(f));
    DEPTH.with(|d| d.set(d.get() - 1));
    if outermost {
        MY_SLOT.with(|s| s.start_ms.store(0, std::sync::atomic::Ordering::SeqCst));
    }
    match r {
        Ok(v) => Ok(v),
        Err(_) => Err(LAST.with(|l| l.borrow_mut().take()).unwrap_or(PanicInfo {
            message: "<panic without hook record>".into(),
            location: "<unknown>".into(),
        })),
    }
}

impl PanicInfo {
    /// Stable head of the message (digits removed) for signatures
    pub fn head(&self) -> String {
        let m: String = self
            .message
            .chars()
            .filter(|c| !c.is_ascii_digit())
            .take(60)
            .collect();
        m
    }
    /// file without line number, and only the part relative to the crate
    pub fn file(&self) -> String {
        let f = self.location.rsplit_once(':').map(|x| x.0).unwrap_or(&self.location);
        match f.find("src/") {
            Some(i) => f[i..].to_string(),
            None => f.to_string(),
        }
    }
}
