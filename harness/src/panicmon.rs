//! Panic monitor: every library call made by a workload goes through `guard`.
//! A process-wide panic hook records message + location in a thread-local instead of printing.

use std::cell::RefCell;
use std::panic::{catch_unwind, AssertUnwindSafe};
use std::sync::Once;

#[derive(Clone, Debug, PartialEq, Eq, PartialOrd, Ord)]
pub struct PanicInfo {
    pub message: String,
    pub location: String,
}

thread_local! {
    static LAST: RefCell<Option<PanicInfo>> = const { RefCell::new(None) };
    static DEPTH: std::cell::Cell<u32> = const { std::cell::Cell::new(0) };
}

static INSTALL: Once = Once::new();

pub fn install() {
    INSTALL.call_once(|| {
        std::panic::set_hook(Box::new(|info| {
            let message = if let Some(s) = info.payload().downcast_ref::<&str>() {
                s.to_string()
            } else if let Some(s) = info.payload().downcast_ref::<String>() {
                s.clone()
            } else {
                "<non-string panic payload>".to_string()
            };
            let location = info
                .location()
                .map(|l| format!("{}:{}", l.file(), l.line()))
                .unwrap_or_else(|| "<unknown>".into());
            if DEPTH.with(|d| d.get()) == 0 {
                // not inside a monitored library call: this is a harness bug, make it visible
                eprintln!("HARNESS PANIC (outside guard): {} at {}", message, location);
            }
            LAST.with(|l| *l.borrow_mut() = Some(PanicInfo { message, location }));
        }));
    });
}

/// Runs `f`, converting an unwinding panic into `Err(PanicInfo)`.
pub fn guard<T>(f: impl FnOnce() -> T) -> Result<T, PanicInfo> {
    LAST.with(|l| *l.borrow_mut() = None);
    DEPTH.with(|d| d.set(d.get() + 1));
    let r = catch_unwind(AssertUnwindSafe(f));
    DEPTH.with(|d| d.set(d.get() - 1));
    match r {
        Ok(v) => Ok(v),
        Err(_) => Err(LAST.with(|l| l.borrow_mut().take()).unwrap_or(PanicInfo {
            message: "<panic without hook record>".into(),
            location: "<unknown>".into(),
        })),
    }
}

impl PanicInfo {
    /// Stable head of the message (digits removed) for signatures
    pub fn head(&self) -> String {
        let m: String = self
            .message
            .chars()
            .filter(|c| !c.is_ascii_digit())
            .take(60)
            .collect();
        m
    }
    /// file without line number, and only the part relative to the crate
    pub fn file(&self) -> String {
        let f = self.location.rsplit_once(':').map(|x| x.0).unwrap_or(&self.location);
        match f.find("src/") {
            Some(i) => f[i..].to_string(),
            None => f.to_string(),
        }
    }
}
