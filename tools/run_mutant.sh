#!/bin/bash
# usage: tools/run_mutant.sh <patch.diff> <check ids...>   -- applies the patch to /repo, runs the quick checks, reverts
P=$1; shift
cd /verif
git -C /repo apply $P || { echo "PATCH DOES NOT APPLY TO /repo"; exit 9; }
for c in "$@"; do
  s=$(date +%s); out=$(./check $c quick 2>&1); rc=$?; e=$(date +%s)
  echo "== check $c rc=$rc $((e-s))s"; echo "$out" | grep -E "^(VIOLATION|INCONCLUSIVE|HELD)|^\[check\] [a-z-]+\|" | head -4 | cut -c1-330
done
git -C /repo checkout -- . ; git -C /repo status --short | head -3
git -C /verif checkout -- evidence 2>/dev/null
