#!/bin/sh
# usage: tools/run_all.sh <quick|thorough> [seed]   -- runs every check sequentially, prints one summary line each
cd "$(dirname "$0")/.."
TIER=${1:-quick}
export VERIF_SEED=${2:-1}
for i in 01 02 03 04 05 06 07 08 09 10 11 12 13 14 15 16 17 18 19 20; do
  s=$(date +%s)
  out=$(./check C$i $TIER 2>/dev/null)
  rc=$?
  e=$(date +%s)
  echo "C$i rc=$rc $((e-s))s :: $(echo "$out" | grep -E '^(VIOLATION|INCONCLUSIVE|HELD)' | head -3 | tr '\n' ' ') known=$(echo "$out" | grep -c '^KNOWN-FINDING')"
done
