#!/bin/bash
# Re-validates every archived seeded change: applies it to /repo, runs the quick check of the property it was written
# against, expects exit 1 (VIOLATION), reverts. usage: tools/regress_seeded.sh [name-substring]
cd /verif
fail=0
for d in seeded/*${1}*/; do
  n=$(basename $d)
  prop=$(python3 -c "import json;print(json.load(open('$d/meta.json'))['breaks_property'])")
  if python3 -c "import json,sys;sys.exit(0 if json.load(open('$d/meta.json')).get('outside_property') else 1)"; then echo "$n: skipped (recorded as outside the property's quantifier)"; continue; fi
  git -C /repo apply /verif/$d/patch.diff 2>/dev/null || { echo "$n: PATCH NO LONGER APPLIES"; fail=1; continue; }
  s=$(date +%s); ./check $prop quick >/dev/null 2>&1; rc=$?; e=$(date +%s)
  git -C /repo checkout -- .
  if [ $rc -eq 1 ]; then echo "$n: caught by $prop ($((e-s))s)"; else echo "$n: NOT CAUGHT by $prop (rc=$rc)"; fail=1; fi
done
git -C /verif checkout -- evidence 2>/dev/null
exit $fail
