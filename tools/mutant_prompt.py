#!/usr/bin/env python3
"""Writes /tmp/out-<id>[suffix]/prompt.txt for the given property ids (text given to an independent sub-agent:
property text + scratch worktree only, nothing from /verif). usage: mutant_prompt.py [--suffix S] [--hint TEXT] C02 C05 ..."""
import json, sys, os
args = sys.argv[1:]
suffix = ''
hint = ''
while args and args[0].startswith('--'):
    if args[0] == '--suffix': suffix = args[1]; args = args[2:]
    elif args[0] == '--hint': hint = args[1]; args = args[2:]
props = {}
for l in open('/verif/properties.jsonl'):
    p = json.loads(l); props[p['id']] = p
TMPL = '''You are working in a scratch git worktree of the Rust crate `vfs` (repository manuel-woelker/rust-vfs, a virtual filesystem abstraction with MemoryFS, PhysicalFS, AltrootFS, OverlayFS, EmbeddedFS and an async port) located at {wt}. Work ONLY inside {wt} and write your results to {out}. Never touch /repo or /verif (do not even read /verif).

GOAL: produce ONE realistic code change to the library sources (under {wt}/src) that BREAKS the semantic property quoted below, while the crate still compiles and the existing test suite still passes. Think of a plausible regression a developer could introduce (refactoring slip, off-by-one, check moved/dropped, wrong layer/variable, swapped enum variant, early return, error swallowed, lock split in two, fast path mishandled ...), not sabotage.

PROPERTY {pid} - {title}
Statement: {statement}
Quantifier: {quant}
{hint}
REQUIREMENTS
1. The change must need something SPECIFIC to manifest: a particular interleaving, a fault at a particular point, a multi-step sequence of operations, an unusual input, a particular backend stacking, or two cooperating sites that each look fine alone. It must NOT be something ordinary use or the existing tests expose at once.
2. `cd {wt} && CARGO_TARGET_DIR={wt}/target cargo build --offline --features async-vfs,embedded-fs` must succeed, and the existing suite must still pass completely with your change: `CARGO_TARGET_DIR={wt}/target cargo test --offline --lib` (397 unit tests) and `CARGO_TARGET_DIR={wt}/target cargo test --offline --doc` (32 doctests), default features. Do not edit or delete existing tests.
3. Keep the patch small (normally < 30 changed lines), touching only files under src/ (no Cargo.toml changes, no new dependencies; the sandbox is offline).
4. Write a demonstration: a small integration test file {wt}/tests/demo_{pid}.rs (it may use only the crate's public API and std; for async code the crate's own dev-dependencies such as tokio-test are available) that FAILS with your change applied and PASSES on the unmodified sources. Verify both directions yourself (e.g. `git diff -- src > /tmp/p; git checkout -- src; <run>; git apply /tmp/p`). Run it with `CARGO_TARGET_DIR={wt}/target cargo test --offline --test demo_{pid}` (add `--features async-vfs` / `embedded-fs` if your demo needs them; say so in meta.json's demo_cmd).
5. Deliverables in {out}/ : `patch.diff` (output of `git -C {wt} diff -- src`, applicable with `git apply` on the original tree), `demo_{pid}.rs` (copy of the demonstration test), and `meta.json` with keys: "property", "summary" (what the change does), "needs_to_manifest" (the specific condition), "files_changed", "demo_cmd", "verified" (object: "suite_passes_with_patch": bool, "demo_fails_with_patch": bool, "demo_passes_without_patch": bool), "notes".
6. Leave the worktree with your change applied and the demo test present. Running the crate's tests litters /tmp with directories named like UUIDs (8-4-4-4-12 hex): delete only those older than a minute when you are done (other workers run tests concurrently). Do not leave other files in /tmp outside {wt} and {out}.

Useful facts: the crate root has src/path.rs (VfsPath API), src/impls/{{memory,physical,altroot,overlay,embedded}}.rs, src/async_vfs/... (async port: path.rs and impls/), src/error.rs, src/filesystem.rs. There is a cargo feature `verif-hooks` (off by default) adding no-op yield points in src/impls/memory.rs and physical.rs; keep those lines intact if you edit near them. Report briefly what you did when finished.'''
for pid in args:
    p = props[pid]
    wt = '/tmp/wt-%s%s' % (pid, suffix); out = '/tmp/out-%s%s' % (pid, suffix)
    os.makedirs(out, exist_ok=True)
    h = ('\nHINT: ' + hint + '\n') if hint else ''
    open(out + '/prompt.txt', 'w').write(TMPL.format(wt=wt, out=out, pid=pid, title=p['title'], statement=p['statement'], quant=p['quantifier']['text'], hint=h))
    print(out + '/prompt.txt')
