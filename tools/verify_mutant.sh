#!/bin/bash
# usage: tools/verify_mutant.sh <Cxx> <worktree> <outdir>  -- confirms (in the scratch worktree only) that the suite passes
# with the patch, the demo fails with it and passes without it
PID=$1; WT=$2; OUT=$3
export CARGO_TARGET_DIR=$WT/target CARGO_NET_OFFLINE=true
FEAT=$(python3 -c "import json,sys;m=json.load(open('$OUT/meta.json'));c=m.get('demo_cmd','');import re;f=re.findall(r'--features[ =]([a-z,-]+)',c);print('--features '+f[0] if f else '')" 2>/dev/null)
cd $WT || exit 9
git checkout -q -- src; git apply $OUT/patch.diff || { echo "PATCH DOES NOT APPLY"; exit 9; }
cp $OUT/demo_$PID.rs tests/demo_$PID.rs 2>/dev/null
echo "suite+patch: $(cargo test --offline --lib 2>&1 | grep -E '^test result' | head -1) | $(cargo test --offline --doc 2>&1 | grep -E '^test result' | head -1)"
echo "demo+patch (must FAIL) [$FEAT]: $(cargo test --offline $FEAT --test demo_$PID 2>&1 | grep -E '^test result|error\[' | head -2 | tr '\n' ' ')"
git checkout -q -- src
echo "demo-orig (must PASS): $(cargo test --offline $FEAT --test demo_$PID 2>&1 | grep -E '^test result|error\[' | head -2 | tr '\n' ' ')"
git apply $OUT/patch.diff
find /tmp -maxdepth 1 -type d -mmin +1 -regextype posix-extended -regex '.*/[0-9a-f]{8}-[0-9a-f]{4}-.*' -exec rm -rf {} + 2>/dev/null
