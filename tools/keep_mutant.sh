#!/bin/bash
# usage: tools/keep_mutant.sh <name> <Cxx> <outdir> "<what I ran / result>"
NAME=$1; PID=$2; OUT=$3; NOTE=$4
D=/verif/seeded/$NAME
mkdir -p $D
cp $OUT/patch.diff $D/patch.diff
cp $OUT/demo_$PID.rs $D/ 2>/dev/null
python3 - "$OUT/meta.json" "$D/meta.json" "$PID" "$NOTE" <<'PY'
import json,sys
src,dst,pid,note=sys.argv[1:5]
try: m=json.load(open(src))
except Exception as e: m={"summary":"(agent meta.json unreadable: %s)"%e}
out={"breaks_property":pid,"summary":m.get("summary"),"needs_to_manifest":m.get("needs_to_manifest"),"files_changed":m.get("files_changed"),"demo_cmd":m.get("demo_cmd"),
 "agent_verified":m.get("verified"),"confirmed_by_me":"in the agent's scratch worktree: cargo test --offline --lib / --doc pass with the patch (397 + 32), the demonstration test fails with the patch and passes without it (tools/eval_mutant.sh)",
 "checks_run_against_it":note,"origin":"independent sub-agent that saw only the property text and a scratch worktree of /repo"}
json.dump(out,open(dst,'w'),indent=1,ensure_ascii=False)
PY
echo kept $D; ls $D
