#!/usr/bin/env python3
"""Debug helper: print violation records of a result file. usage: show.py result.json [substring] [--full]"""
import json, sys
r = json.load(open(sys.argv[1]))
sub = sys.argv[2] if len(sys.argv) > 2 and not sys.argv[2].startswith('--') else ''
full = '--full' in sys.argv
for v in r['violation_records']:
    if sub in v['signature']:
        print('==', v['count'], v['signature'])
        print('  ', v['summary'])
        if full:
            d = v['detail']
            print('   config:', d.get('config'), 'names:', d.get('names'), 'tag', d.get('tag'), 'history', d.get('history'), 'step', d.get('step'))
            for l in d.get('layers', []): print('   ', l)
            for t in d.get('trace', []): print('     ', t)
            print('   what:', json.dumps(d.get('what'), ensure_ascii=False)[:1500])
