#!/bin/bash
# usage: tools/eval_mutant.sh <Cxx> <worktree> <outdir> [check ids...]
# 1. confirms in the scratch worktree: suite passes with patch, demo fails with patch, demo passes without
# 2. applies the patch to /repo, runs the given checks (quick), reverts /repo
PID=$1; WT=$2; OUT=$3; shift 3; CHECKS="$@"
[ -z "$CHECKS" ] && CHECKS=$PID
export CARGO_TARGET_DIR=$WT/target CARGO_NET_OFFLINE=true
FEAT=$(python3 -c "import json,sys;m=json.load(open('$OUT/meta.json'));c=m.get('demo_cmd','');print('--features async-vfs,embedded-fs' if 'features' in c else '')" 2>/dev/null)
cd $WT || exit 9
git checkout -q -- src; git apply $OUT/patch.diff || { echo "PATCH DOES NOT APPLY"; exit 9; }
cp $OUT/demo_$PID.rs tests/demo_$PID.rs 2>/dev/null
echo "== suite with patch"; cargo test --offline --lib 2>&1 | grep -E "^test result" ; cargo test --offline --doc 2>&1 | grep -E "^test result"
echo "== demo with patch (must FAIL)"; cargo test --offline $FEAT --test demo_$PID 2>&1 | grep -E "^test result|error\[" | head -3
git checkout -q -- src
echo "== demo without patch (must PASS)"; cargo test --offline $FEAT --test demo_$PID 2>&1 | grep -E "^test result|error\[" | head -3
git apply $OUT/patch.diff
find /tmp -maxdepth 1 -type d -regextype posix-extended -regex '.*/[0-9a-f]{8}-[0-9a-f]{4}-.*' -exec rm -rf {} + 2>/dev/null
cd /verif
git -C /repo apply $OUT/patch.diff || { echo "PATCH DOES NOT APPLY TO /repo"; exit 9; }
for c in $CHECKS; do
  s=$(date +%s); out=$(./check $c quick 2>&1); rc=$?; e=$(date +%s)
  echo "== check $c rc=$rc $((e-s))s"; echo "$out" | grep -E "^(VIOLATION|INCONCLUSIVE|HELD)|^\[check\] [a-z-]+\|" | head -8
done
git -C /repo checkout -- . ; git -C /repo status --short | head -3
git -C /verif checkout -- evidence 2>/dev/null
