#!/usr/bin/env python3
"""Generates /verif/MANIFEST.json from the table below (kept in one place so the manifest stays valid)."""
import json
import os
import subprocess

VERIF = os.path.dirname(os.path.dirname(os.path.abspath(__file__)))

ENGINE_NOTE = ("Trusted base: the harness' reference model / oracle code, rustc, the host tmpfs for PhysicalFS. Holds only for the "
               "executions produced (finite universes of at most a few hundred paths, depth<=4, bounded histories, seeded generators); nothing is claimed "
               "about histories, inputs or configurations not generated. Known findings listed in known_findings.json are reported as "
               "KNOWN-FINDING lines and do not fail the check.")

P = {
 "C01": dict(technique="runtime monitoring: lock-step reference-model monitor over generated histories with full observable snapshots",
             text="Exploration: thousands of seeded random histories of the typed C01 domain run against the real crate on generated backend stackings; after every call the outcome class / demanded error kind and a full observable snapshot (all observers on all universe and listing-discovered paths + walk_dir) are compared with an executable abstract-tree model. Right level because the property quantifies over histories x inputs x configurations, which only sampling with a global oracle can reach at run time.",
             ref="§2.1-2.3, §4 C01"),
 "C03": dict(technique="runtime monitoring: model-free structural invariant evaluated on a full snapshot after every step of untyped generated histories",
             text="Exploration: untyped histories (wrong-type calls, root targets) on all configurations; after every step existence probes over the whole universe + listings decide: root is a directory, every existing entry has an existing directory parent and is reachable from the root, no non-empty directory became a file.",
             ref="§4 C03"),
 "C05": dict(technique="runtime monitoring: cross-observer consistency rules on every snapshot of generated histories",
             text="Exploration: every snapshot produced by typed and untyped histories is checked with model-free rules relating exists/metadata/is_file/is_dir/read_dir/open_file/walk_dir (incl. absent paths, prefix-sibling names, discovered entries, walk order and uniqueness).",
             ref="§4 C05"),
 "C08": dict(technique="runtime monitoring: call-recording FileSystem wrappers around every layer + deep state comparison of lower layers (sync OverlayFS and, state comparison only, AsyncOverlayFS)",
             text="Exploration: untyped histories + timestamp setters on overlays with 2-4 pre-populated layers (incl. nested overlays and altroot layers). A recording wrapper around every filesystem of the stack reports any mutating call reaching a lower layer and any mutating call during a pure observer; each lower layer's deep state (type, bytes, created, modified) is compared before/after every step. An async pass runs the same kind of history through an AsyncOverlayFS over memory/physical layers and compares every lower layer's deep state (read through the layer's own view) with its initial value after every step.",
             ref="§2.4, §4 C08"),
 "C09": dict(technique="runtime monitoring: lock-step reference-model monitor initialised with the union of generated layers",
             text="Exploration: C01's monitor on top-level overlays with 1-4 generated, conflict-free pre-populated layers; the initial snapshot must equal the layer union and every later call must obey the C01 contracts relative to it.",
             ref="§4 C09"),
 "C10": dict(technique="runtime monitoring: tombstone monitor + discovered-entries rule over long removal/re-creation histories",
             text="Exploration: long histories (20-40 steps, removal/re-creation heavy) on overlays with 2-4 pre-populated layers; every lower-layer entry removed through the overlay (and its former descendants) is tracked as a tombstone that no observer may report until re-created; re-created entries must be fresh; no listing/walk may show a '.whiteout' or '*_wo' name.",
             ref="§4 C10"),
 "C12": dict(technique="runtime monitoring: error monitor applied to every Err produced by all generated workloads",
             text="Exploration: every error returned by any operation, observer or walk item of the typed/untyped/overlay workloads is checked: path label is not the placeholder and is related to the call path or destination (never an inner-layer path), and the kind rules of the property hold (missing entry -> not-found, occupied create_dir -> file/directory-exists, not-supported).",
             ref="§2.8, §4 C12"),
 "C02": dict(technique="runtime monitoring: lock-step differential execution MemoryFS vs PhysicalFS with full snapshots (no model)",
             text="Exploration: the same generated history (wrong-type calls, overwrites, re-creations, reader seek/read scripts, large and non-UTF-8 contents) is executed on a fresh MemoryFS and a fresh PhysicalFS; success/failure of every call, the not-found/already-exists classes where the property demands them, return values and the full observable snapshot after every step must agree. No reference model is involved, only agreement is demanded.",
             ref="§4 C02"),
 "C04": dict(technique="runtime monitoring: std::io::Cursor session interpreter as reference, read-back monitors over generated write sessions",
             text="Exploration: (A) engine histories dominated by write sessions with write/seek/flush scripts, boundary lengths, copy/move, on all configurations incl. overlay copy-up, every file read back after every step against Cursor semantics with a random read-buffer size; (B) session cases checking flush visibility through a still-open handle, read-back with buffer sizes 1,2,7,4096,8192,len,len+1, metadata length, copy/move within an instance, to a twin instance and to another backend.",
             ref="§4 C04"),
 "C06": dict(technique="runtime monitoring: bounded complete input sweep + random inputs against an independent reference resolver and algebraic laws",
             text="Exploration (exhaustive for the token bound): every concatenation of up to 7 (quick) / 9 (thorough) tokens from {'/','.','..','a','b.c','é','.h','a.'} joined onto bases of depth 0-3, plus random strings and random join/parent/root chains, on VfsPath and AsyncVfsPath; oracle = independent component-stack resolver, canonical-form predicate, laws (parent-of-join, filename, extension, root, is_root, equality within/across instances, composition).",
             ref="§4 C06"),
 "C14": dict(technique="runtime monitoring: call-by-call differential of real handles against std::io::Cursor over generated read/write/seek scripts",
             text="Exploration: generated contents placed directly or in a lower overlay layer; read scripts (read/seek Start|Current|End with offsets around 0, +-len, +-2^40/read_to_end) and write scripts (create or append; write/seek/flush) are run call by call on the real handle and on std::io::Cursor; every result, the final position and the bytes published by drop must agree. Handles from Mem, Phys, Alt, Ovl (served from lower / copied up) and (C18) EmbeddedFS.",
             ref="§4 C14"),
 "C18": dict(technique="runtime monitoring: lock-step differential EmbeddedFS vs PhysicalFS (and std::fs) over the completely enumerated path set",
             text="Exploration with an exhaustively enumerated, finite path set: every embedded file, implied directory, the root, absent siblings, prefixes and extensions of existing names and paths below files of two fixtures; all observers (full snapshots at three read-buffer sizes), every public path operation and every mutator (must be refused, as NotSupported where a writable backend would accept, without effect).",
             ref="§4 C18"),
 "C19": dict(technique="runtime monitoring: before/after metadata monitor around every timestamp setter + pass-through comparison with the served entry",
             text="Exploration: generated setter sequences over the three fields, files and directories, upper-only / lower-only / copied-up entries on Mem, Phys, Alt, Ovl and stackings, with a host-calibrated value set for PhysicalFS; metadata before/after each setter decides round-trip, independence of the other fields/len/type/bytes, not-supported-without-effect, creation time across appends and adapter pass-through.",
             ref="§4 C19"),
 "C07": dict(technique="runtime monitoring: call-recording wrapper between altroot and underlying filesystem, decoy snapshots, twin execution, hostile join expressions",
             text="Exploration: altroots at depth 0-3 over Mem/Phys/Ovl/another altroot with decoys around P; untyped histories whose paths are reached through hostile join expressions; after every step: every call crossing into the underlying filesystem stays at or below P (call log), nothing outside P nor outside a PhysicalFS root directory changed, the view equals the subtree below P, and outcome/kind/value/resulting tree equal those of the translated operation on a twin underlying filesystem.",
             ref="§4 C07"),
 "C11": dict(technique="runtime monitoring: pair-model monitor with full snapshots of source and destination filesystems and a route log",
             text="Exploration: generated source trees and destination positions over ordered pairs of backend/adapter instances (same instance, twin instance, other backend); create_dir_all/remove_dir_all/copy_file/move_file/copy_dir/move_dir are checked for exact effect, copy_dir's count, untouched source, refusal of an existing destination without side effects; the call log classifies which route ran (fast path, NotSupported fallback, cross-instance stream) and the run is inconclusive unless every route was taken.",
             ref="§4 C11"),
 "C13": dict(technique="runtime monitoring: catch_unwind + panic hook around every library call of hostile generated workloads (sync, embedded, async; dev and release profiles)",
             text="Exploration: unrestricted histories (root targets, wrong types, extreme seek offsets, root removal), handle scripts with extreme offsets, handles used after removal/replacement of their file, PhysicalFS over directories with non-UTF-8 names / dangling symlinks / symlink loops, every operation on every EmbeddedFS path, the join sweep and the async port; any unwinding panic (or abnormal process exit) is a violation.",
             ref="§4 C13"),
 "C20": dict(level="fault_enumeration", technique="runtime monitoring with fault injection: FileSystem wrapper fails the k-th underlying call, for every k of each sampled case",
             text="Fault enumeration: for each sampled (configuration, pre-state, operation) the fault-free run counts the N calls into the wrapped filesystems; for every k in 1..N the pre-state is rebuilt and the k-th call (second dimension: the k-th handle read/write/flush) fails with an injected I/O error. Ok is accepted only with the fault-free full effect/value, Err with any state; panics and mutating calls on lower layers are violations. Complete over k per case; the cases themselves are sampled.",
             ref="§2.5, §4 C20"),
 "C15": dict(technique="runtime monitoring: lock-step differential sync vs async twins behind a Pending-injecting AsyncFileSystem wrapper, poll-schedule sweep of the walk_dir stream",
             text="Exploration: one generated history is executed on a sync configuration and on 4-8 async twins whose every AsyncFileSystem call and directory-stream item returns Pending according to a schedule; outcomes, error classes, return values (read-handle scripts, read_dir sets, walk_dir sets and order) and full snapshots after every step must agree. For small trees all 2^M pending patterns of the walk_dir stream are enumerated (exhaustive for those trees).",
             ref="§2.6, §4 C15"),
 "C16": dict(technique="runtime monitoring: hook-driven baton scheduler (sweep/random/PCT) + offline serialisability checker over recorded concurrent histories, structural invariant on the final state",
             text="Exploration: generated and directed small concurrent programs on one MemoryFS run under a scheduler that decides which thread passes the next lock acquisition (all schedules for programs that fit the cap, random + PCT otherwise); each distinct (results, final tree) outcome is checked against every program-order-respecting sequential execution of the same library calls on a fresh MemoryFS; final tree well-formedness, panics and deadlocks are monitored.",
             ref="§2.7, §4 C16",
             note="Trusted base: the scheduler and checker code of the harness; the verif-hooks yield points (one in front of every lock acquisition of src/impls/memory.rs) — a critical section that is split without adding a yield point is only preempted in free-running/Miri modes. Holds for the programs and schedules explored only; exhaustive only for the programs counted under programs_swept_exhaustively, at hook granularity."),
 "C17": dict(technique="runtime monitoring: baton scheduler sweep on memory-backed configurations + free-running stress with delays injected at the PhysicalFS::create_dir hook",
             text="Exploration: tuples of overlapping paths created concurrently with create_dir_all by 2-4 threads; every call must succeed and every prefix must be a directory afterwards, on MemoryFS and adapters over it under every explored schedule (all schedules where the sweep fits), and on PhysicalFS and adapters over it under real preemption with injected delays.",
             ref="§4 C17",
             note="Trusted base: scheduler code, verif-hooks yield points. Holds for the tuples and schedules explored only; exhaustive only for tuples counted under tuples_swept_exhaustively, at hook granularity; physical rounds are samples of real interleavings."),
}

NOT_YET = {
}

# additions made after the first version of the table (rounds 5-8 of the seeded-change validation)
EXTRA = {
 "C01": "A memory-only pass (MemoryFS, altroots over it) adds thousands of cheap histories; one universe in three is built around a name family (a / a.b / 'a b' / a-1 ...: names whose text extends a sibling's).",
 "C02": "Write sessions include seeks, in-place overwrites and intermediate flushes (append sessions stay seek-free: O_APPEND differs by design).",
 "C04": "Contents include shaped data (zero runs at block boundaries, repeated blocks, block-structured multiples of 512..65536 bytes); after a copy, a further write session on either name must leave the other file untouched.",
 "C06": "Equality is also checked for derived paths: root() and parent() of same-string paths on two filesystem instances must compare unequal, root() must equal the instance's own root.",
 "C05": "Plus a probe of filesystems whose root directory is absent (root removed while empty, altroot directory removed underneath or never created, overlay with a missing lower layer): the observers must tell one story about the root there too. And a walk-with-bystanders probe: a directory the walk has yielded is removed before the walk descends into it; everything outside it must still be yielded exactly once, after its parent.",
 "C07": "Transfers that C01 leaves unspecified (wrong-typed source, the altroot's root as source) are run as the last step of a history with the no-panic, confinement and view monitors only; a panic where the underlying twin returns is a C07 violation. Timestamp setters are part of the workload: their outcome through the altroot must equal the outcome on the underlying twin.",
 "C09": "Plus a directed probe of the marker-naming clash of sibling pairs (n, n_wo) (known finding KF3).",
 "C10": "Plus a probe that addresses the bookkeeping itself (/.whiteout, marker directories, marker files) after removals and then calls mutators on those addresses: nothing of it may be observable and nothing removed may come back (known finding KF4); the probe also drops short-named and multi-byte-named entries into the bookkeeping and reports any observer panic afterwards (it runs in C13 too).",
 "C11": "Trees use name families (string-extension siblings) two times in three, and names freed by an earlier removal or move of the same case are re-used as destinations.",
 "C12": "The complete join sweep of C06 also runs here: a trailing-slash join that is accepted or classified as anything but invalid-path is reported under C12. Exactness rule: a call on one entry fails at that entry or at an ancestor, so an error label strictly below the call path is a violation.",
 "C13": "Includes AsyncPhysicalFS over the prepared hostile directories, sync and async walks polled to the end while listed entries are removed, and the async read-handle scripts.",
 "C15": "Plus: write handles kept open in both worlds across rug-pulls and second writers (open, write 0..5 bytes, flush, rug-pull, close; snapshots compared after every step); async read handles against std::io::Cursor over generated read/seek scripts (async physical files included); physical transfer differential.",
 "C17": "States before the threads start: nothing; the same names created and removed again; some requested prefixes already existing; prefixes existing in the lowest overlay layer only. A thread that does not return within 1.5 s is only a deadlock suspicion: the decision list is replayed with a 20 s limit before anything is reported.",
 "C16": "A thread that does not return within 1.5 s is only a deadlock suspicion: the decision list is replayed with a 20 s limit before a deadlock is reported.",
 "C18": "Plus generated embedded trees (hand-written RustEmbed implementation over a per-thread table, mirrored on disk for the PhysicalFS side; names that recur as text inside earlier components); the path set of every tree is enumerated completely, the trees themselves are a sample.",
 "C19": "The same setter monitor runs through the async port (AsyncMemoryFS: not-supported and nothing changes; AsyncPhysicalFS and adapters: round trip) with injected Pending results.",
 "C20": "One case in four on overlays starts from a directed pre-state: a lower-layer entry is removed through the overlay and the faulted operation re-creates at that path.",
}
for _k, _v in EXTRA.items():
    P[_k]["text"] += " " + _v

ORDER = ["C%02d" % i for i in range(1, 21)]


def main():
    try:
        repo_commits = subprocess.run(["git", "-C", "/repo", "log", "--format=%h %s"], capture_output=True, text=True).stdout.splitlines()
    except Exception:
        repo_commits = []
    hook_commits = [l.split()[0] for l in repo_commits if "verif-hooks" in l]
    checks = []
    na = []
    for pid in ORDER:
        if pid in P:
            e = P[pid]
            checks.append({
                "property_id": pid,
                "quick_cmd": "./check %s quick" % pid,
                "thorough_cmd": "./check %s thorough" % pid,
                "evidence_file": "/verif/evidence/%s.json" % pid,
                "replay_cmd_template": "./check --replay {path}",
                "engine": "vfs-verif",
                "level_claimed": {"category": e.get("level", "exploration"), "text": e["text"], "design_ref": "DESIGN.md " + e["ref"]},
                "level_note": e.get("note", ENGINE_NOTE),
                "technique": e["technique"],
            })
        else:
            na.append({"property_id": pid, "reason": NOT_YET.get(pid, "check not built yet in this round (planned per DESIGN.md §4; runtime monitoring applies)")})
    m = {
        "version": 1,
        "setup_cmd": "./setup.sh",
        "hooks": {
            "guard": "cargo feature verif-hooks (off by default)",
            "enable": "the harness crate depends on vfs = { path = \"/repo\", features = [\"async-vfs\", \"embedded-fs\", \"verif-hooks\"] }; every check runs `cargo build` first, so edits under /repo are recompiled with the hooks on",
            "baseline_off_cmd": "cd /repo && cargo test --workspace --no-fail-fast --offline",
            "source_commits": hook_commits,
            "add_only": True,
        },
        "engines": [
            {"name": "vfs-verif", "path": "/verif/harness", "serves_properties": [c["property_id"] for c in checks],
             "kind_free_text": "Rust harness binary: generated workloads against the real crate, reference models, snapshot observers, FileSystem wrappers (call recording, fault and Pending injection), hook-driven thread scheduler + serialisability checker; /verif/check (python) builds it, runs it, applies known_findings.json, writes evidence and prints verdict lines"},
        ],
        "checks": checks,
        "notes": "Technique family: runtime monitoring and sanitizers. All verdicts read 'held on the executions described in evidence/<id>.json'. VERIF_SEED seeds every random choice. Genuine defects found while building were repaired in /repo as 'fix:' commits (listed under 'fixed' in known_findings.json); the one defect pinned by the existing test-suite is a known finding.",
        "not_applicable": na,
    }
    with open(os.path.join(VERIF, "MANIFEST.json"), "w") as fh:
        json.dump(m, fh, indent=1)
    print("wrote MANIFEST.json with %d checks, %d not_applicable" % (len(checks), len(na)))


if __name__ == "__main__":
    main()
