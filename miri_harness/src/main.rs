//! Miri mode (DESIGN §2.7 / §6): small concurrent programs and handle scripts on MemoryFS, run by
//! `cargo +nightly miri run -Zmiri-disable-isolation -Zmiri-many-seeds=0..N -- <C13|C14|C16|C17>`.
//! Miri's own randomised preemptive scheduler interleaves the threads at basic-block granularity (independent
//! of the verif-hooks yield points) and reports data races, UB, overflow panics and deadlocks.
//! Exit code 0 = held on this seed; exit 1 + a line "MIRI-VIOLATION ..." on stderr otherwise.

use std::collections::{BTreeMap, HashMap};
use std::io::{Cursor, Read, Seek, SeekFrom, Write};
use std::sync::{Arc, Mutex};
use vfs::{AltrootFS, MemoryFS, OverlayFS, SeekAndWrite, VfsFileType, VfsPath};

#[derive(Clone, Debug, PartialEq, Eq)]
enum POp {
    CreateDir(&'static str),
    CreateWrite(&'static str, &'static [u8]),
    AppendWrite(&'static str, &'static [u8]),
    RemoveFile(&'static str),
    RemoveDir(&'static str),
    Exists(&'static str),
    Metadata(&'static str),
    ReadDir(&'static str),
    OpenRead(&'static str),
}

#[derive(Clone, Debug, PartialEq, Eq)]
enum CRes {
    Ok,
    Err,
    Bool(bool),
    Meta(bool, u64),
    Names(Vec<String>),
    Bytes(Vec<u8>),
    Skipped,
}

struct Program {
    pre: Vec<(&'static str, Option<&'static [u8]>)>,
    threads: Vec<Vec<POp>>,
}

fn at(root: &VfsPath, p: &str) -> VfsPath {
    if p.is_empty() { root.clone() } else { root.join(&p[1..]).unwrap() }
}

fn fresh(pre: &[(&'static str, Option<&'static [u8]>)]) -> VfsPath {
    let root = VfsPath::new(MemoryFS::new());
    for (p, c) in pre {
        match c {
            None => at(&root, p).create_dir().unwrap(),
            Some(b) => at(&root, p).create_file().unwrap().write_all(b).unwrap(),
        }
    }
    root
}

fn path_of(op: &POp) -> &'static str {
    match op {
        POp::CreateDir(p) | POp::RemoveFile(p) | POp::RemoveDir(p) | POp::Exists(p) | POp::Metadata(p) | POp::ReadDir(p) | POp::OpenRead(p) => p,
        POp::CreateWrite(p, _) | POp::AppendWrite(p, _) => p,
    }
}

fn do_call(root: &VfsPath, op: &POp) -> (CRes, Option<Box<dyn SeekAndWrite + Send>>) {
    let p = at(root, path_of(op));
    match op {
        POp::CreateDir(_) => (if p.create_dir().is_ok() { CRes::Ok } else { CRes::Err }, None),
        POp::CreateWrite(_, b) => match p.create_file() {
            Ok(mut h) => { let _ = h.write_all(b); (CRes::Ok, Some(h)) }
            Err(_) => (CRes::Err, None),
        },
        POp::AppendWrite(_, b) => match p.append_file() {
            Ok(mut h) => { let _ = h.write_all(b); (CRes::Ok, Some(h)) }
            Err(_) => (CRes::Err, None),
        },
        POp::RemoveFile(_) => (if p.remove_file().is_ok() { CRes::Ok } else { CRes::Err }, None),
        POp::RemoveDir(_) => (if p.remove_dir().is_ok() { CRes::Ok } else { CRes::Err }, None),
        POp::Exists(_) => (p.exists().map(CRes::Bool).unwrap_or(CRes::Err), None),
        POp::Metadata(_) => (p.metadata().map(|m| CRes::Meta(m.file_type == VfsFileType::Directory, m.len)).unwrap_or(CRes::Err), None),
        POp::ReadDir(_) => (p.read_dir().map(|it| { let mut v: Vec<String> = it.map(|c| c.filename()).collect(); v.sort(); CRes::Names(v) }).unwrap_or(CRes::Err), None),
        POp::OpenRead(_) => (match p.open_file() {
            Ok(mut r) => { let mut v = vec![]; match r.read_to_end(&mut v) { Ok(_) => CRes::Bytes(v), Err(_) => CRes::Err } }
            Err(_) => CRes::Err,
        }, None),
    }
}

#[derive(Clone, Debug, PartialEq, Eq)]
enum Call { Path(POp), Publish(usize) }

fn calls_of(t: &[POp]) -> Vec<Call> {
    let mut v = vec![];
    for (i, op) in t.iter().enumerate() {
        v.push(Call::Path(op.clone()));
        if matches!(op, POp::CreateWrite(..) | POp::AppendWrite(..)) { v.push(Call::Publish(i)); }
    }
    v
}

const PROBE: &[&str] = &["", "/d", "/d/x", "/d/f", "/g", "/d/x/y"];

fn final_tree(root: &VfsPath) -> BTreeMap<String, Option<Vec<u8>>> {
    let mut m = BTreeMap::new();
    for p in PROBE {
        let vp = at(root, p);
        if vp.exists().unwrap_or(false) {
            match vp.metadata() {
                Ok(md) if md.file_type == VfsFileType::File => {
                    let mut v = vec![];
                    let _ = vp.open_file().map(|mut r| r.read_to_end(&mut v));
                    m.insert(p.to_string(), Some(v));
                }
                _ => { m.insert(p.to_string(), None); }
            }
        }
    }
    m
}

fn well_formed(t: &BTreeMap<String, Option<Vec<u8>>>) -> Result<(), String> {
    for (p, _) in t {
        if p.is_empty() { continue; }
        let par = match p.rfind('/') { Some(i) => &p[..i], None => "" };
        match t.get(par) {
            Some(None) => {}
            Some(Some(_)) => return Err(format!("{} exists below the file {}", p, par)),
            None => return Err(format!("{} exists but its parent {} does not", p, par)),
        }
    }
    if t.get("") != Some(&None) { return Err("root missing".into()); }
    Ok(())
}

fn replay(prog: &Program, calls: &[Vec<Call>], order: &[usize], results: &[Vec<CRes>]) -> Option<VfsPath> {
    let root = fresh(&prog.pre);
    let mut pos = vec![0usize; calls.len()];
    let mut handles: HashMap<(usize, usize), Option<Box<dyn SeekAndWrite + Send>>> = HashMap::new();
    for &t in order {
        let c = &calls[t][pos[t]];
        let got = match c {
            Call::Path(op) => {
                let (r, h) = do_call(&root, op);
                if h.is_some() {
                    let opi = calls[t][..pos[t]].iter().filter(|c| matches!(c, Call::Path(_))).count();
                    handles.insert((t, opi), h);
                }
                r
            }
            Call::Publish(opi) => match handles.remove(&(t, *opi)) { Some(Some(h)) => { drop(h); CRes::Ok } _ => CRes::Skipped },
        };
        if got != results[t][pos[t]] { return None; }
        pos[t] += 1;
    }
    Some(root)
}

fn dfs(prog: &Program, calls: &[Vec<Call>], order: &mut Vec<usize>, pos: &mut Vec<usize>, n: usize, results: &[Vec<CRes>], fin: &BTreeMap<String, Option<Vec<u8>>>) -> bool {
    let root = match replay(prog, calls, order, results) { Some(r) => r, None => return false };
    if order.len() == n { return &final_tree(&root) == fin; }
    for t in 0..calls.len() {
        if pos[t] < calls[t].len() {
            order.push(t); pos[t] += 1;
            let r = dfs(prog, calls, order, pos, n, results, fin);
            pos[t] -= 1; order.pop();
            if r { return true; }
        }
    }
    false
}

fn run_program(name: &str, prog: &Program) -> Result<(), String> {
    let root = fresh(&prog.pre);
    let results: Arc<Mutex<Vec<Vec<CRes>>>> = Arc::new(Mutex::new(prog.threads.iter().map(|t| vec![CRes::Skipped; calls_of(t).len()]).collect()));
    let mut hs = vec![];
    for (i, t) in prog.threads.iter().enumerate() {
        let (root, t, results) = (root.clone(), t.clone(), results.clone());
        hs.push(std::thread::spawn(move || {
            let mut ci = 0;
            for op in &t {
                let (r, h) = do_call(&root, op);
                results.lock().unwrap()[i][ci] = r;
                ci += 1;
                if matches!(op, POp::CreateWrite(..) | POp::AppendWrite(..)) {
                    let had = h.is_some();
                    drop(h);
                    results.lock().unwrap()[i][ci] = if had { CRes::Ok } else { CRes::Skipped };
                    ci += 1;
                }
            }
        }));
    }
    for h in hs { h.join().map_err(|_| format!("{}: a program thread panicked", name))?; }
    let fin = final_tree(&root);
    well_formed(&fin).map_err(|e| format!("{}: final tree ill-formed: {} ({:?})", name, e, fin))?;
    let results = results.lock().unwrap().clone();
    let calls: Vec<Vec<Call>> = prog.threads.iter().map(|t| calls_of(t)).collect();
    let n = calls.iter().map(|c| c.len()).sum();
    if !dfs(prog, &calls, &mut vec![], &mut vec![0; calls.len()], n, &results, &fin) {
        return Err(format!("{}: not serialisable: results {:?} final {:?}", name, results, fin));
    }
    Ok(())
}

fn c16_programs() -> Vec<(&'static str, Program)> {
    let d = ("/d", None);
    let f = ("/d/f", Some(&b"0123"[..]));
    vec![
        ("rmdir||mkdir-child", Program { pre: vec![d], threads: vec![vec![POp::RemoveDir("/d")], vec![POp::CreateDir("/d/x")]] }),
        ("rmdir||create-file-child", Program { pre: vec![d], threads: vec![vec![POp::RemoveDir("/d")], vec![POp::CreateWrite("/d/f", b"ab")]] }),
        ("rm-file+rmdir||rewrite", Program { pre: vec![d, f], threads: vec![vec![POp::RemoveFile("/d/f"), POp::RemoveDir("/d")], vec![POp::CreateWrite("/d/f", b"ab")]] }),
        ("mkdir||mkdir", Program { pre: vec![d], threads: vec![vec![POp::CreateDir("/d/x")], vec![POp::CreateDir("/d/x")]] }),
        ("mkdir||create-file-same", Program { pre: vec![d], threads: vec![vec![POp::CreateDir("/d/x")], vec![POp::CreateWrite("/d/x", b"ab")]] }),
        ("append||append||read", Program { pre: vec![d, f], threads: vec![vec![POp::AppendWrite("/d/f", b"A")], vec![POp::AppendWrite("/d/f", b"B")], vec![POp::OpenRead("/d/f"), POp::Metadata("/d/f")]] }),
        ("retype||observe", Program { pre: vec![d, f], threads: vec![vec![POp::RemoveFile("/d/f"), POp::CreateDir("/d/f")], vec![POp::OpenRead("/d/f"), POp::Metadata("/d/f")], vec![POp::ReadDir("/d"), POp::Exists("/d/f")]] }),
        ("rmdir-chain||mkdir-deep", Program { pre: vec![d, ("/d/x", None)], threads: vec![vec![POp::RemoveDir("/d/x"), POp::RemoveDir("/d")], vec![POp::CreateDir("/d/x/y")]] }),
    ]
}

fn c17_round(kind: usize) -> Result<(), String> {
    let root: VfsPath = match kind {
        0 => VfsPath::new(MemoryFS::new()),
        1 => {
            let m = VfsPath::new(MemoryFS::new());
            let base = m.join("alt/p").unwrap();
            base.create_dir_all().unwrap();
            VfsPath::new(AltrootFS::new(base))
        }
        _ => VfsPath::new(OverlayFS::new(&[VfsPath::new(MemoryFS::new()), VfsPath::new(MemoryFS::new())])),
    };
    let paths = ["/a/a/a", "/a/a/b", "/a/b"];
    let mut hs = vec![];
    for p in paths {
        let root = root.clone();
        hs.push(std::thread::spawn(move || at(&root, p).create_dir_all().map_err(|e| e.to_string())));
    }
    for (i, h) in hs.into_iter().enumerate() {
        match h.join() {
            Ok(Ok(())) => {}
            Ok(Err(e)) => return Err(format!("create_dir_all({}) failed concurrently (backend {}): {}", paths[i], kind, e)),
            Err(_) => return Err("a create_dir_all thread panicked".into()),
        }
    }
    for p in paths {
        let mut cur = String::new();
        for c in p.split('/').filter(|c| !c.is_empty()) {
            cur = format!("{}/{}", cur, c);
            if !at(&root, &cur).is_dir().unwrap_or(false) {
                return Err(format!("{} is not a directory afterwards (backend {})", cur, kind));
            }
        }
    }
    Ok(())
}

fn handle_scripts(check_values: bool) -> Result<(), String> {
    let root = VfsPath::new(MemoryFS::new());
    let contents: [&[u8]; 4] = [b"", b"x", b"0123456789", &[7u8; 300]];
    let offs: [i64; 12] = [i64::MIN, -301, -11, -1, 0, 1, 9, 10, 11, 300, 301, i64::MAX];
    for (ci, c) in contents.iter().enumerate() {
        let p = root.join(format!("f{}", ci)).unwrap();
        p.create_file().unwrap().write_all(c).unwrap();
        for (k, off) in offs.iter().enumerate() {
            for whence in 0..3 {
                let mut r = p.open_file().map_err(|e| e.to_string())?;
                let mut cur = Cursor::new(c.to_vec());
                let sf = match whence { 0 => SeekFrom::Start(if *off < 0 { (k as u64) * 3 } else { *off as u64 }), 1 => SeekFrom::Current(*off), _ => SeekFrom::End(*off) };
                let mut b1 = [0u8; 4];
                let mut b2 = [0u8; 4];
                let _ = r.read(&mut b1);
                let _ = cur.read(&mut b2);
                let (x, y) = (r.seek(sf), cur.seek(sf));
                if check_values && (x.is_ok() != y.is_ok() || (x.is_ok() && x.as_ref().ok() != y.as_ref().ok())) {
                    return Err(format!("seek({:?}) on {} bytes: handle {:?} cursor {:?}", sf, c.len(), x.map_err(|e| e.kind()), y.map_err(|e| e.kind())));
                }
                let (mut v1, mut v2) = (vec![], vec![]);
                let (x, y) = (r.read_to_end(&mut v1), cur.read_to_end(&mut v2));
                if check_values && (x.is_ok() != y.is_ok() || v1 != v2) {
                    return Err(format!("read after seek({:?}) on {} bytes: handle {:?} cursor {:?}", sf, c.len(), v1.len(), v2.len()));
                }
                let mut z = [0u8; 0];
                let _ = r.read(&mut z);
            }
        }
        // writer: seek around, write, flush, append
        let mut w = p.create_file().map_err(|e| e.to_string())?;
        let mut cur = Cursor::new(vec![]);
        for (sf, data) in [(SeekFrom::Start(3), &b"ab"[..]), (SeekFrom::Current(-2), b"Z"), (SeekFrom::End(2), b"q"), (SeekFrom::Current(-100), b"n")] {
            let (x, y) = (w.seek(sf), cur.seek(sf));
            if check_values && x.is_ok() != y.is_ok() { return Err(format!("writer seek({:?}) differs", sf)); }
            w.write_all(data).unwrap();
            cur.write_all(data).unwrap();
            w.flush().unwrap();
        }
        drop(w);
        let mut a = p.append_file().map_err(|e| e.to_string())?;
        a.write_all(b"+tail").unwrap();
        drop(a);
        let mut want = cur.into_inner();
        want.extend_from_slice(b"+tail");
        let mut got = vec![];
        p.open_file().unwrap().read_to_end(&mut got).unwrap();
        if check_values && got != want { return Err(format!("published bytes differ: {:?} vs {:?}", got, want)); }
    }
    Ok(())
}

fn main() {
    let what = std::env::args().nth(1).unwrap_or_else(|| "C16".into());
    let r: Result<(), String> = match what.as_str() {
        "C16" => c16_programs().iter().try_for_each(|(n, p)| run_program(n, p)),
        "C17" => (0..3).try_for_each(c17_round),
        "C14" => handle_scripts(true),
        "C13" => handle_scripts(false).and_then(|_| c16_programs().iter().take(3).try_for_each(|(n, p)| run_program(n, p).or(Ok(())))),
        other => Err(format!("unknown selector {}", other)),
    };
    if let Err(e) = r {
        eprintln!("MIRI-VIOLATION property={} {}", what, e);
        std::process::exit(1);
    }
}
