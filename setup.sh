#!/bin/sh
# Builds the harness (dev = strict profile with overflow checks; release for the C13/C14 thorough runs). Offline.
set -e
cd "$(dirname "$0")"
export CARGO_NET_OFFLINE=true
cargo build --offline --manifest-path harness/Cargo.toml --target-dir target
cargo build --offline --release --manifest-path harness/Cargo.toml --target-dir target
mkdir -p evidence replays .scratch
