#!/bin/sh
# Builds the harness (dev = strict profile with overflow checks; release for the C13/C14 thorough runs). Offline.
set -e
cd "$(dirname "$0")"
export CARGO_NET_OFFLINE=true
cargo build --offline --manifest-path harness/Cargo.toml --target-dir target
cargo build --offline --release --manifest-path harness/Cargo.toml --target-dir target
mkdir -p evidence replays .scratch
# Miri harness (thorough tier of C13/C14/C16/C17): warm the build so the first thorough run does not pay for it
(cd miri_harness && MIRIFLAGS="-Zmiri-disable-isolation" cargo +nightly miri run --offline -- C14 >/dev/null 2>&1) || echo "note: miri warm-up failed (thorough tier will report it)"
